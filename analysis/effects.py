"""Ownership/count event algebra over MIR paths (DESIGN.md section 3).

For every body: enumerate CFG paths (each edge at most once, per-path constant
propagation for bool/int locals and Result/Option variant tags), emit events
recognised by type and resolved callee, compose callee summaries bottom-up.
"""
from collections import namedtuple

from . import model
from .facts import (
    BOX,
    MANUALLY_DROP,
    OPTION,
    RESULT,
    operand_const,
    operand_local,
    operand_place,
    place_str,
)

VK = ("inc", "dec", "init", "alloc", "free_s1", "free_raw", "own", "make_agg", "uclone", "user", "drops", "retgt")
IDX = {k: i for i, k in enumerate(VK)}
ZERO = tuple(0 for _ in VK)
CAP = {"user": 3, "uclone": 3, "retgt": 2}

Effect = namedtuple("Effect", "exit tag vec pcalls notes trace origin")


def vec(**kw):
    v = list(ZERO)
    for k, x in kw.items():
        v[IDX[k]] = x
    return tuple(v)


def vadd(a, b):
    out = [x + y for x, y in zip(a, b)]
    for k, c in CAP.items():
        i = IDX[k]
        if out[i] > c:
            out[i] = c
    return tuple(out)


def vget(v, k):
    return v[IDX[k]]


def dcount(v):
    return vget(v, "inc") + vget(v, "init") - vget(v, "dec") - vget(v, "free_raw")


def imbalance(v):
    """I = delta(count word) - delta(owning handle values)."""
    return dcount(v) - vget(v, "own")


def eff_key(e):
    return (e.exit, e.tag, e.vec, e.pcalls, e.notes, e.origin)


def dedup(effs):
    seen = {}
    for e in effs:
        k = eff_key(e)
        if k not in seen:
            seen[k] = e
    return list(seen.values())


def mk(exit="ret", tag=None, v=ZERO, pcalls=(), notes=frozenset(), trace=(), origin=None):
    """origin: for unwinding effects, the class of the first event that started the unwinding
    (user | panic | maypanic | std)."""
    return Effect(exit, tag, v, tuple(sorted(pcalls)), frozenset(notes), tuple(trace)[:12], origin if exit != "ret" else None)


RET0 = mk()
UNW0 = mk(exit="unw", origin="std")
UNW_PANIC = mk(exit="unw", origin="panic")
UNW_MAYPANIC = mk(exit="unw", origin="maypanic")

FN_TRAITS = ("core::ops::function::FnOnce", "core::ops::function::FnMut", "core::ops::function::Fn")

def _envsig(env):
    return tuple(sorted((n, ti, _envsig(e2) if e2 else ()) for n, (ti, e2) in env.items()))


PathResult = namedtuple("PathResult", "exit tag vec pcalls notes events blocks origin")


class TooManyPaths(Exception):
    pass


class Engine:
    MAX_PATHS = 200000

    def __init__(self, facts):
        self.f = facts
        self.memo = {}
        self.stack = []
        self.unmodelled = set()
        self.recursion = set()
        self.glue_memo = {}

    # ------------------------------------------------------------------ summaries
    def summary(self, key, env=None):
        """Effects of local body `key`. `env` (type-parameter name -> (type index, env)) specialises a generic helper for a call
        site that passes a handle-holding type for a parameter (`with_transient::<Arc<T>, _, _>(owner, f)`): inside the helper
        a value of that parameter type then carries the handle's tokens and drop glue."""
        mkey = key if not env else (key, _envsig(env))
        if mkey in self.memo:
            return self.memo[mkey]
        if key in self.stack:
            self.recursion.add(key)
            return [mk(notes={"RECURSION:" + key})]
        body = self.f.body(key)
        if body is None:
            return [mk(notes={"NO-BODY:" + key}), mk(exit="unw", notes={"NO-BODY:" + key})]
        self.stack.append(key)
        old = getattr(self.f, "_dyn_env", None)
        self.f._dyn_env = env or {}
        try:
            prs = self.walk(body, record=False)
        finally:
            self.f._dyn_env = old
            self.stack.pop()
        effs = dedup([mk(p.exit, p.tag, p.vec, p.pcalls, p.notes, (), p.origin) for p in prs])
        self.memo[mkey] = effs
        return effs

    def local_paths(self, key, args):
        """Recorded paths of a local callee specialised like `local_call_effects` (used to look at what a helper does at the
        moment it calls a caller-supplied closure)."""
        gm = self.generic_map(key, args)
        env = {}
        cur = getattr(self.f, "_dyn_env", None) or {}
        for n, a in gm.items():
            if "t" in a and self.f.tokens(a["t"])[0] > 0:
                env[n] = (a["t"], dict(cur))
        ck = ("paths", key, _envsig(env))
        if ck not in self.memo:
            old = getattr(self.f, "_dyn_env", None)
            self.f._dyn_env = env
            try:
                self.memo[ck] = self.walk(self.f.body(key), record=True)
            finally:
                self.f._dyn_env = old
        return self.memo[ck]

    def local_call_effects(self, key, args):
        """Summary of a local callee instantiated for a call site's generic arguments (specialised when an argument holds handles)."""
        gm = self.generic_map(key, args)
        env = {}
        cur = getattr(self.f, "_dyn_env", None) or {}
        for n, a in gm.items():
            if "t" in a and self.f.tokens(a["t"])[0] > 0:
                env[n] = (a["t"], dict(cur))
        return self.instantiate(self.summary(key, env or None), gm)

    def toplevel(self, key):
        """Paths of a body with callee summaries composed and leftover parameter calls read as user callbacks."""
        body = self.f.body(key)
        prs = self.walk(body, record=True)
        return prs

    # ------------------------------------------------------------------ instantiate
    def generic_map(self, key, args):
        """Map the generic parameter names of local item `key` to the call's generic args."""
        body = self.f.body(key)
        if body is None:
            return {}
        names = [g["name"] for g in body["generics"]]
        m = {}
        for n, a in zip(names, args or []):
            m[n] = a
        return m

    def callable_effects(self, ty_idx, outcome):
        """Effects of calling a value of type ty_idx once, restricted to exit == outcome (or div)."""
        t = self.f.ty(ty_idx)
        k = t["k"]
        if k == "closure":
            effs = self.summary(t["def"])
        elif k == "fndef":
            from . import implsel

            fkey, gm = implsel.fn_item(self.f, ty_idx)
            if t["def"] in self.f.bodies:
                effs = self.instantiate(self.summary(t["def"]), self.generic_map(t["def"], t["args"]))
            elif fkey is not None:
                effs = self.instantiate(self.summary(fkey), gm)  # `Arc::clone` named through the trait
            else:
                effs = self.std_effects(t["def"], t["def"], t["args"], [], None, None)[0]
        elif k == "param":
            effs = [mk(pcalls=[(t["name"], "ret")]), mk(exit="unw", pcalls=[(t["name"], "unw")], origin="user")]
        elif k == "ref":
            return self.callable_effects(t["t"], outcome)
        else:
            effs = [mk(v=vec(user=1)), mk(exit="unw", v=vec(user=1), origin="user")]
        return [e for e in effs if e.exit in (outcome, "div")]

    def instantiate(self, effs, gmap):
        """Substitute the callee's symbolic parameter calls using the generic args of a call site."""
        out = []
        for e in effs:
            if not e.pcalls:
                out.append(e)
                continue
            partial = [mk(e.exit, e.tag, e.vec, (), e.notes, e.trace, e.origin)]
            for pname, outcome in e.pcalls:
                a = gmap.get(pname)
                nxt = []
                if a is None or "t" not in a:
                    subs = [mk(v=vec(user=1))] if outcome == "ret" else [mk(exit="unw", v=vec(user=1), origin="user")]
                else:
                    subs = self.callable_effects(a["t"], outcome)
                for p in partial:
                    for s in subs:
                        ex = p.exit
                        if s.exit == "div":
                            ex = "div"
                        org = p.origin
                        if outcome == "unw" and s.origin is not None:
                            org = s.origin  # the parameter call is where the unwinding started
                        elif ex != "ret" and org is None:
                            org = s.origin or "user"
                        nxt.append(mk(ex, p.tag, vadd(p.vec, s.vec), p.pcalls + s.pcalls, p.notes | s.notes, p.trace, org))
                partial = dedup(nxt)
            out.extend(partial)
        return dedup(out)

    # ------------------------------------------------------------------ std models
    def arg_types(self, gargs):
        return [a["t"] for a in (gargs or []) if "t" in a]

    def std_effects(self, path, display, gargs, arg_tys, term, state):
        """Effects of a non-local callee. Returns (effects, event_kind, detail)."""
        f = self.f
        cls, why = model.classify(path)
        targs = self.arg_types(gargs)
        if path == "<core::mem::manually_drop::ManuallyDrop<T> as core::clone::Clone>::clone" and targs:
            # `ManuallyDrop<X>: Clone` clones the X and wraps the clone: X's own `clone`, its result hidden from the destructor
            x = targs[0]
            n, amb = f.tokens(x)
            if n and not amb:
                from . import implsel

                best = implsel.find_impl(f, "core::clone::Clone", (x, {}))
                mkey = None
                if best is not None:
                    for it in best[1]["items"]:
                        if it["name"] == "clone":
                            mkey = it["key"]
                if mkey is not None and mkey in f.bodies:
                    gm = {k: ({"t": v} if isinstance(v, int) else v) for k, v in best[2].items()}
                    effs = self.instantiate(self.summary(mkey), gm)
                    out = [mk(e.exit, e.tag, vadd(e.vec, vec(own=-n)) if e.exit == "ret" else e.vec, e.pcalls, e.notes, e.trace, e.origin) for e in effs]
                    return (out, "CALL", {"callee": mkey, "via": path})
            elif not n:
                return ([mk(v=vec(uclone=1, user=1)), mk(exit="unw", v=vec(uclone=1, user=1), origin="user")], "UCLONE", {"callee": path})
        generic_user = any(f.mentions_param(t) or f.mentions_closure(t) for t in targs)
        if cls is None:
            if generic_user:
                return ([mk(v=vec(user=1)), mk(exit="unw", v=vec(user=1), origin="user")], "USER", path)
            return ([RET0, UNW0], "STD", path)
        if cls == "UNMODELLED":
            self.unmodelled.add(path)
            n = frozenset({"UNMODELLED-PRIMITIVE:" + path})
            return ([mk(notes=n), mk(exit="unw", notes=n, origin="std")], "UNMODELLED", path)
        if cls == model.DIVERGE:
            return ([mk(exit="div")], "DIVERGE", path)
        if cls == model.PANIC:
            return ([UNW_PANIC], "PANIC", path)
        if cls == model.NEUTRAL:
            if path in ("core::mem::replace", "core::mem::swap", "core::mem::take", "core::ptr::replace", "core::ptr::swap") and targs and f.tokens(targs[0])[0] > 0:
                return ([mk(v=vec(retgt=1))], "RETARGET", {"via": path, "handle": f.handle_name(targs[0]), "whole": True})
            return ([RET0], "STD", path)
        if cls == model.MAYPANIC:
            return ([RET0, UNW_MAYPANIC], "STD", path)
        if cls in (model.HIDE, model.MAKE):
            x = targs[0] if targs else None
            n, amb = f.tokens(x) if x is not None else (0, False)
            notes = frozenset({"AMBIG-TOKENS:" + f.ts(x)}) if amb and n else frozenset()
            if cls == model.HIDE:
                return ([mk(v=vec(own=-n), notes=notes)], "HIDE" if n else "STD", {"n": n, "ty": f.ts(x) if x is not None else "?", "via": path})
            return ([mk(v=vec(own=n), notes=notes)], "MAKE" if n else "STD", {"n": n, "ty": f.ts(x) if x is not None else "?", "via": path})
        if cls == model.DROPV:
            x = targs[0]
            return (self.drop_effects(x, None), "DROP", {"ty": f.ts(x), "ty_idx": x, "adt": f.ty(x).get("path"), "via": path})
        if cls == model.DROPP:
            x = targs[0]
            n, _ = f.tokens(x)
            effs = [mk(e.exit, e.tag, vadd(e.vec, vec(own=n)), e.pcalls, e.notes, e.trace, e.origin) for e in self.drop_effects(x, None)]
            return (effs, "DROP", {"ty": f.ts(x), "via": path, "in_place": True})
        if cls == "copy":
            x = targs[0] if targs else None
            n, _ = f.tokens(x) if x is not None else (0, False)
            if n:
                nn = frozenset({"UNSUPPORTED:bitwise copy of handle-holding type " + f.ts(x)})
                return ([mk(notes=nn)], "UNSUPPORTED", path)
            return ([RET0], "STD", path)
        if cls == model.ALLOC:
            return ([mk(v=vec(alloc=1))], "ALLOC", {"via": path})
        if cls == model.DEALLOC:
            if term is not None and term.get("args") and self._foreign_storage(term["args"][0]):
                # releasing storage that never was a block of ours (the shell of a `Box<T>` whose contents were moved out)
                return ([RET0], "STD", path)
            return ([mk(v=vec(free_raw=1))], "FREE", {"via": path})
        if cls == model.BOXNEW:
            x = targs[0]
            if f.is_adt(x, f.inner_path):
                return ([mk(v=vec(alloc=1))], "ALLOC", {"via": path, "ty": f.ts(x)})
            return ([RET0], "STD", path)
        if cls == model.BOXDROP:
            x = targs[0]
            if f.is_adt(x, f.inner_path):
                return ([mk(v=vec(free_raw=1))], "FREE", {"via": path, "ty": f.ts(x)})
            return ([RET0], "STD", path)
        if cls == model.ATOMIC_NEW:
            k = None
            if term is not None and term["args"]:
                c = operand_const(term["args"][0])
                if c is not None and "int" in c:
                    k = c["int"]
            if k is None:
                nn = frozenset({"UNSUPPORTED:atomic initialised with a non-constant"})
                return ([mk(notes=nn)], "INIT", {"k": None})
            return ([mk(v=vec(init=k))], "INIT", {"k": k})
        if cls in (model.ATOMIC_RMW_ADD, model.ATOMIC_RMW_SUB):
            k = None
            if term is not None and len(term["args"]) > 1:
                c = operand_const(term["args"][1])
                if c is not None and "int" in c:
                    k = c["int"]
            if k is None:
                nn = frozenset({"UNSUPPORTED:atomic RMW with a non-constant operand"})
                return ([mk(notes=nn)], "INC" if cls == model.ATOMIC_RMW_ADD else "DEC", {"k": None})
            if cls == model.ATOMIC_RMW_ADD:
                return ([mk(v=vec(inc=k))], "INC", {"k": k})
            return ([mk(v=vec(dec=k))], "DEC", {"k": k})
        if cls == model.ATOMIC_LOAD:
            return ([RET0], "LOAD", {})
        if cls == model.ATOMIC_CAS:
            # `compare_exchange(cur, new, ..)` with constant operands: the count moves by new - cur exactly when the result is Ok
            cur = new = None
            if term is not None and len(term["args"]) > 2:
                c1, c2 = operand_const(term["args"][1]), operand_const(term["args"][2])
                cur = c1.get("int") if c1 else None
                new = c2.get("int") if c2 else None
            if cur is not None and cur == new:
                # `compare_exchange(k, k, ..)`: a test of the word that changes nothing (whether it may serve as the uniqueness
                # test - strong form, Acquire on success - is judged by C03's gate rules)
                return ([mk(tag="Ok"), mk(tag="Err")], "LOAD", {"cas_test": cur})
            if cur is None or new is None or new <= cur:
                nn = frozenset({"ATOMIC-OTHER:" + path + " (operands not constants with new > current)"})
                return ([mk(notes=nn)], "ATOMIC-OTHER", path)
            return ([mk(tag="Ok", v=vec(inc=new - cur)), mk(tag="Err")], "CAS", {"k": new - cur, "current": cur, "new": new})
        if cls == model.ATOMIC_OTHER:
            nn = frozenset({"ATOMIC-OTHER:" + path})
            return ([mk(notes=nn)], "ATOMIC-OTHER", path)
        if cls == model.FENCE:
            return ([RET0], "FENCE", {})
        if cls == model.FROM_RESIDUAL:
            tag = "Err" if "Result" in path.split(" as ")[0] else "None"
            return ([mk(tag=tag)], "STD", path)
        if cls == model.TRY_BRANCH:
            return ([RET0], "STD", path)
        if cls == model.UNSUPPORTED:
            nn = frozenset({"UNSUPPORTED:" + path})
            return ([mk(notes=nn), mk(exit="unw", notes=nn, origin="std")], "UNSUPPORTED", path)
        if cls == model.HO:
            return (None, "HO", path)  # handled by the caller (needs operands)
        if cls == model.INTO:
            return (None, "INTO", path)
        raise AssertionError("unhandled model class " + cls)

    # ------------------------------------------------------------------ drop glue
    def drop_effects(self, ty_idx, tag, env=None, depth=0):
        """Effects of running the destructor of a value of type ty_idx (tokens it holds are retired)."""
        f = self.f
        dyn = getattr(f, "_dyn_env", None)
        key = (ty_idx, tag, id(env) if env else None, _envsig(dyn) if dyn else None)
        if env is None and key in self.glue_memo:
            return self.glue_memo[key]
        pieces = self._glue(ty_idx, tag, env, depth)
        # sequential composition; on unwind of a piece the remaining pieces still run
        partial = [RET0]
        for alts in pieces:
            nxt = []
            for p in partial:
                for a in alts:
                    ex = p.exit
                    if a.exit == "div" or p.exit == "div":
                        ex = "div"
                    elif a.exit == "unw":
                        ex = "unw"
                    nxt.append(mk(ex, None, vadd(p.vec, a.vec), p.pcalls + a.pcalls, p.notes | a.notes, (), p.origin or a.origin))
            partial = dedup(nxt)
        if env is None:
            self.glue_memo[key] = partial
        return partial

    def _glue(self, i, tag, env, depth):
        f = self.f
        t = f.ty(i)
        k = t["k"]
        if depth > 10:
            return [[mk(notes={"UNSUPPORTED:deep drop glue"})]]
        if k == "param":
            if env and t["name"] in env:
                ti, e2 = env[t["name"]]
                return self._glue(ti, None, e2, depth + 1)
            dyn = getattr(f, "_dyn_env", None)
            if dyn and t["name"] in dyn:
                ti, e2 = dyn[t["name"]]
                return self._glue(ti, None, e2 or {}, depth + 1)
            return [[mk(v=vec(user=1)), mk(exit="unw", v=vec(user=1), origin="user")]]
        if k in ("alias", "dyn"):
            return [[mk(v=vec(user=1)), mk(exit="unw", v=vec(user=1), origin="user")]]
        if k in ("prim", "str", "never", "ref", "ptr", "fnptr", "fndef", "other"):
            return []
        if k in ("slice", "array"):
            return self._glue(t["t"], None, env, depth + 1)
        if k == "tuple":
            out = []
            for x in t["ts"]:
                out += self._glue(x, None, env, depth + 1)
            return out
        if k == "closure":
            out = []
            for x in t.get("upvars", []):
                out += self._glue(x, None, env, depth + 1)
            return out
        if k == "adt":
            p = t["path"]
            targs = [a["t"] for a in t["args"] if "t" in a]
            if p == MANUALLY_DROP or p.startswith("core::marker::") or p.startswith("core::sync::atomic::") or p == "core::mem::maybe_uninit::MaybeUninit" or p == "core::ptr::non_null::NonNull":
                return []
            hn = f.path_to_handle.get(p)
            if t["local"] and p in f.adts:
                adt = f.adts[p]
                out = []
                n, amb = f.tokens(i, env)
                dk = f.drop_impls.get(p)
                if dk:
                    # instantiate the Drop impl's symbolic parameter calls with this type's args
                    names = [g["name"] for g in adt["generics"]]
                    gmap = dict(zip(names, t["args"]))
                    effs = self.instantiate(self.summary(dk), gmap)
                    own = -1 if hn in ("Arc", "ThinArc", "OffsetArc", "ArcUnion") else 0
                    out.append([mk(e.exit, None, vadd(e.vec, vec(own=own, drops=1 if own else 0)), e.pcalls, e.notes, (), e.origin) for e in effs])
                    if own:
                        return out  # handle ADTs: fields are pointers/markers only
                names = [g["name"] for g in adt["generics"] if g["kind"] == "type"]
                e2 = {}
                for n_, ti in zip(names, targs):
                    e2[n_] = (ti, env)
                if len(adt["variants"]) == 1:
                    for fld in adt["variants"][0]["fields"]:
                        out += self._glue(fld["ty"], None, e2, depth + 1)
                else:
                    vs = [v for v in adt["variants"] if tag is None or v["name"] == tag]
                    alts_per_variant = []
                    for v in vs:
                        pcs = []
                        for fld in v["fields"]:
                            pcs += self._glue(fld["ty"], None, e2, depth + 1)
                        alts_per_variant.append(pcs)
                    if any(alts_per_variant):
                        if len(vs) == 1:
                            out += alts_per_variant[0]
                        else:
                            tot = set(f.tokens(fld["ty"], e2)[0] for v in vs for fld in v["fields"])
                            if tot - {0}:
                                out.append([mk(notes={"AMBIG-DROP:" + t["s"]})])
                            else:
                                out.append([mk(v=vec(user=1)), mk(exit="unw", v=vec(user=1), origin="user")])
                return out
            if p == BOX:
                out = self._glue(targs[0], None, env, depth + 1)
                if f.is_adt(targs[0], f.inner_path):
                    out.append([mk(v=vec(free_raw=1))])
                return out
            if p in (OPTION, RESULT):
                names = {OPTION: ["Some"], RESULT: ["Ok", "Err"]}[p]
                cands = list(zip(names, targs))
                if tag in names:
                    cands = [c for c in cands if c[0] == tag]
                elif tag == "None":
                    return []
                subs = [(nm, self._glue(x, None, env, depth + 1), f.tokens(x, env)[0]) for nm, x in cands]
                subs = [s for s in subs if s[1]]
                if not subs:
                    return []
                if len(cands) == 1 and p == RESULT or (p == OPTION and tag == "Some"):
                    return subs[0][1]
                if any(s[2] for s in subs):
                    return [[mk(notes={"AMBIG-DROP:" + t["s"]})]]
                return [[mk(v=vec(user=1)), mk(exit="unw", v=vec(user=1), origin="user")]]
            # other std containers: run user destructors iff they hold user types
            tot = sum(f.tokens(x, env)[0] for x in targs)
            if tot:
                return [[mk(notes={"UNSUPPORTED:drop of std container holding handles " + t["s"]})]]
            if any(f.mentions_param(x) for x in targs):
                return [[mk(v=vec(user=1)), mk(exit="unw", v=vec(user=1), origin="user")]]
            return []
        return []

    # ------------------------------------------------------------------ path walking
    def _private_callee(self, key):
        b = self.f.body(key) if key else None
        return b is not None and b.get("kind") in ("Fn", "AssocFn") and not (b.get("pub") and b.get("reachable"))

    def _foreign_storage(self, op):
        from . import storage

        body = getattr(self, "_cur_body", None)
        return body is not None and storage.foreign_storage(self.f, body, op)

    def walk(self, body, record):
        f = self.f
        blocks = body["blocks"]
        _prev_body = getattr(self, "_cur_body", None)
        self._cur_body = body
        try:
            return self._walk(body, record)
        finally:
            self._cur_body = _prev_body

    def _walk(self, body, record):
        f = self.f
        blocks = body["blocks"]
        results = []
        budget = [0]
        key = body["key"]
        ret_is_bool = f.ts(body["locals"][0]["ty"]) == "bool"

        def finish(exit, st):
            tag = st["tags"].get(0) if exit == "ret" else None
            if exit == "ret" and tag is None and 0 in st["consts"] and ret_is_bool:
                tag = "True" if st["consts"][0] else "False"  # a verdict (`fn release_ref(&self) -> bool`): callers branch on it
            results.append(PathResult(exit, tag, st["vec"], tuple(sorted(st["pcalls"])), frozenset(st["notes"]), st["events"], st["blocks"], st["origin"] if exit != "ret" else None))
            budget[0] += 1
            if budget[0] > self.MAX_PATHS:
                raise TooManyPaths(key)

        def fork(st):
            return {
                "consts": dict(st["consts"]),
                "tags": dict(st["tags"]),
                "vec": st["vec"],
                "pcalls": list(st["pcalls"]),
                "notes": set(st["notes"]),
                "events": list(st["events"]) if record else st["events"],
                "edges": st["edges"],
                "dec_direct": st["dec_direct"],
                "copyof": st.get("copyof"),
                "origin": st["origin"],
                "blocks": st["blocks"] + () if record else st["blocks"],
            }

        def emit(st, kind, bb, span, v, detail):
            if v != ZERO:
                st["vec"] = vadd(st["vec"], v)
            if record:
                st["events"].append({"kind": kind, "bb": bb, "span": span, "vec": v, "detail": detail, "run": st["vec"]})

        def assign_effects(st, bb, s):
            lhs, rv = s["lhs"], s["rv"]
            ll = lhs["l"] if not lhs["p"] else None
            k = rv["k"]
            # constant / tag propagation
            if ll is not None:
                st["consts"].pop(ll, None)
                if st.get("copyof") and (ll in st["copyof"] or ll in st["copyof"].values()):
                    st["copyof"] = {a: b_ for a, b_ in st["copyof"].items() if a != ll and b_ != ll}
                st["tags"].pop(ll, None)
                if k == "use":
                    c = operand_const(rv["op"])
                    if c is not None and "int" in c and f.ty(c["ty"])["k"] == "prim":
                        st["consts"][ll] = c["int"]
                    src = operand_local(rv["op"])
                    if src is not None:
                        if src in st["consts"]:
                            st["consts"][ll] = st["consts"][src]
                        elif "cp" in rv["op"] and f.ts(lhs["ty"]) == "bool":
                            # a copy of a not-yet-known bool: a later branch on the copy also tells the original
                            # (`let last = old == 1; if last { .. } last`)
                            st["copyof"] = dict(st.get("copyof") or {})
                            st["copyof"][ll] = st["copyof"].get(src, src)
                        if src in st["tags"]:
                            st["tags"][ll] = st["tags"][src]
                elif k == "unop" and rv["op"] == "Not":
                    src = operand_local(rv["a"])
                    if src is not None and src in st["consts"] and f.ts(lhs["ty"]) == "bool":
                        st["consts"][ll] = 0 if st["consts"][src] else 1
                elif k == "binop" and rv["op"] in ("Eq", "Ne", "Lt", "Le", "Gt", "Ge"):
                    va = self._const_of(st, rv["a"])
                    vb = self._const_of(st, rv["b"])
                    if va is not None and vb is not None:
                        r = {"Eq": va == vb, "Ne": va != vb, "Lt": va < vb, "Le": va <= vb, "Gt": va > vb, "Ge": va >= vb}[rv["op"]]
                        st["consts"][ll] = 1 if r else 0
                elif k == "agg" and rv.get("agg") == "adt" and rv["adt"] in (OPTION, RESULT, "core::ops::control_flow::ControlFlow"):
                    st["tags"][ll] = rv["variant"]
                elif k == "discr":
                    src = rv["place"]
                    if not src["p"] and src["l"] in st["tags"]:
                        d = {"Ok": 0, "Err": 1, "None": 0, "Some": 1, "Continue": 0, "Break": 1}.get(st["tags"][src["l"]])
                        if d is not None:
                            st["consts"][ll] = d
            # ownership events
            if k == "agg" and rv.get("agg") == "adt":
                rt = lhs.get("ty")
                if rt is not None:
                    n, amb = f.tokens(rt)
                    if f.ty(rt)["k"] == "adt" and f.ty(rt)["path"] in (OPTION, RESULT):
                        # the constructed variant is known: tokens of its payload
                        n = 0
                        for o in rv["ops"]:
                            pl = operand_place(o)
                            if pl is not None and "ty" in pl:
                                n += f.tokens(pl["ty"])[0]
                    tot = 0
                    for o in rv["ops"]:
                        pl = operand_place(o)
                        ot = pl.get("ty") if pl is not None else (operand_const(o) or {}).get("ty")
                        if ot is not None:
                            tot += f.tokens(ot)[0]
                    d = n - tot
                    if d != 0:
                        hn = f.handle_name(rt)
                        emit(st, "MAKE" if d > 0 else "HIDE", bb, s["span"], vec(own=d, make_agg=1 if d > 0 else 0), {"n": d, "ty": f.ts(rt), "via": "aggregate", "handle": hn})
            elif k == "cast" and rv["cast"].startswith("Transmute"):
                pl = operand_place(rv["op"])
                src_t = pl.get("ty") if pl is not None else (operand_const(rv["op"]) or {}).get("ty")
                a = f.tokens(src_t)[0] if src_t is not None else 0
                b = f.tokens(rv["ty"])[0]
                if record or a != b:
                    if a != b or a:
                        emit(st, "TRANSMUTE", bb, s["span"], vec(own=b - a), {"from": f.ts(src_t) if src_t is not None else "?", "to": f.ts(rv["ty"]), "n": b - a})
            elif k == "use" and "cp" in rv["op"] and not rv.get("cfd"):
                pl = rv["op"]["cp"]
                if "ty" in pl:
                    n, _ = f.tokens(pl["ty"])
                    if n:
                        emit(st, "MAKE", bb, s["span"], vec(own=n), {"n": n, "ty": f.ts(pl["ty"]), "via": "bitwise copy of a place"})
            # borrow of the payload (DATA field of INNER) - recorded for ordering rules (C03, C08)
            if record and k in ("ref", "rawptr") and rv["place"]["p"]:
                for pe in rv["place"]["p"]:
                    if isinstance(pe, dict) and pe.get("adt") == f.inner_path and f.data_field and pe.get("f") == f.data_field[0]:
                        emit(st, "DATAREF", bb, s["span"], ZERO, {"mut": rv["mut"], "raw": k == "rawptr", "place": place_str(rv["place"])})
                        break
            # re-pointing an existing handle as a whole: `*r = new_handle`
            if lhs["p"] == ["deref"] and "ty" in lhs and f.tokens(lhs["ty"])[0] > 0 and k == "use":
                emit(st, "RETARGET", bb, s["span"], vec(retgt=1), {"place": place_str(lhs), "handle": f.handle_name(lhs["ty"]), "whole": True})
            # retarget: assignment through a handle's pointer field
            if lhs["p"]:
                last = lhs["p"][-1]
                if isinstance(last, dict) and "f" in last and last.get("adt") in f.path_to_handle and f.path_to_handle[last["adt"]] in ("Arc", "ThinArc", "OffsetArc", "ArcUnion"):
                    emit(st, "RETARGET", bb, s["span"], ZERO, {"place": place_str(lhs), "handle": f.path_to_handle[last["adt"]]})

        def go(bb, st):
            while True:
                if record:
                    st["blocks"] = st["blocks"] + (bb,)
                blk = blocks[bb]
                for s in blk["stmts"]:
                    if s["k"] == "assign":
                        assign_effects(st, bb, s)
                    elif s["k"] == "setdiscr":
                        pass
                t = blk["term"]
                k = t["k"]
                nexts = []  # (target bb or ('exit', kind), state)
                if k == "goto":
                    nexts.append((t["target"], st))
                elif k == "switch":
                    d = None
                    dl = operand_local(t["discr"])
                    if dl is not None and dl in st["consts"]:
                        d = st["consts"][dl]
                    c = operand_const(t["discr"])
                    if c is not None and "int" in c:
                        d = c["int"]
                    if d is not None:
                        tgt = t["otherwise"]
                        for v, b2 in t["arms"]:
                            if v == d:
                                tgt = b2
                        nexts.append((tgt, st))
                    else:
                        tgts = []
                        for v, b2 in t["arms"]:
                            tgts.append((b2, v))
                        tgts.append((t["otherwise"], None))
                        seen_t = set()
                        for b2, v in tgts:
                            if (b2, v is None) in seen_t:
                                continue
                            seen_t.add((b2, v is None))
                            s2 = fork(st)
                            if dl is not None and v is not None:
                                s2["consts"][dl] = v
                            if dl is not None and f.ts(t["discr_ty"]) == "bool" and (st.get("copyof") or {}).get(dl) is not None:
                                root = st["copyof"][dl]
                                bv = v if v is not None else (1 if [x for x, _b in t["arms"]] == [0] else (0 if [x for x, _b in t["arms"]] == [1] else None))
                                if bv is not None and root not in s2["consts"]:
                                    s2["consts"][root] = bv
                                    if v is None:
                                        s2["consts"][dl] = bv
                            if record:
                                s2["events"].append({"kind": "BRANCH", "bb": bb, "span": t["span"], "vec": ZERO, "detail": {"value": v, "to": b2}, "run": s2["vec"]})
                            nexts.append((b2, s2))
                elif k == "return":
                    finish("ret", st)
                    return
                elif k == "resume":
                    finish("unw", st)
                    return
                elif k == "terminate":
                    finish("div", st)
                    return
                elif k == "unreachable":
                    finish("div", st)
                    return
                elif k == "assert":
                    cv = self._const_of(st, t["cond"])
                    if cv is None or bool(cv) == bool(t["expected"]):
                        nexts.append((t["target"], st if cv is not None else fork(st)))
                    if cv is None or bool(cv) != bool(t["expected"]):
                        s2 = fork(st)
                        if s2["origin"] is None:
                            s2["origin"] = "debug-assert" if any("debug_assert" in m for m in t["span"].get("macros", [])) else "maypanic"
                        if record:
                            s2["events"].append({"kind": "ASSERT-FAIL", "bb": bb, "span": t["span"], "vec": ZERO, "detail": t["msg"], "run": s2["vec"]})
                        nexts.append((("unwind", t["unwind"]), s2))
                elif k == "drop":
                    pl = t["place"]
                    tag = st["tags"].get(pl["l"]) if not pl["p"] else None
                    effs = self.drop_effects(t["ty"], tag)
                    self._apply(effs, "DROP", {"ty": f.ts(t["ty"]), "ty_idx": t["ty"], "adt": f.ty(t["ty"]).get("path"), "place": place_str(pl)}, t, bb, st, fork, emit, nexts, None)
                elif k == "call":
                    self._call(body, t, bb, st, fork, emit, nexts)
                else:
                    st["notes"].add("UNSUPPORTED:terminator " + k)
                    finish("div", st)
                    return
                # follow successors
                todo = []
                for tgt, s2 in nexts:
                    if isinstance(tgt, tuple):
                        ua = tgt[1]
                        if ua == "continue":
                            finish("unw", s2)
                            continue
                        if ua == "terminate":
                            finish("div", s2)
                            continue
                        if ua == "unreachable":
                            continue
                        tgt = ua
                    edge = (bb, tgt)
                    if edge in s2["edges"]:
                        continue
                    s2["edges"] = s2["edges"] | {edge}
                    todo.append((tgt, s2))
                if not todo:
                    return
                for tgt, s2 in todo[1:]:
                    go(tgt, s2)
                bb, st = todo[0]

        st0 = {"consts": {}, "tags": {}, "vec": ZERO, "pcalls": [], "notes": set(), "events": [], "edges": frozenset(), "dec_direct": False, "origin": None, "blocks": ()}
        import sys

        old = sys.getrecursionlimit()
        sys.setrecursionlimit(max(old, 20000))
        try:
            go(0, st0)
        finally:
            sys.setrecursionlimit(old)
        return results

    def _const_of(self, st, op):
        c = operand_const(op)
        if c is not None and "int" in c:
            return c["int"]
        l = operand_local(op)
        if l is not None:
            return st["consts"].get(l)
        return None

    def _apply(self, effs, kind, detail, t, bb, st, fork, emit, nexts, dest_local):
        """Fork the path over the alternatives of one call/drop and route each to its successor."""
        target = t.get("target")
        unwind = t.get("unwind", "continue")
        for e in effs:
            if e.exit == "unw" and unwind == "unreachable":
                continue
            s2 = fork(st)
            v = e.vec
            # pair a FREE reached after a direct decrement on this path: shape S1
            if vget(v, "free_raw") and st["dec_direct"]:
                n = vget(v, "free_raw")
                v = vadd(v, vec(free_raw=-n, free_s1=n))
            if kind == "DEC":
                s2["dec_direct"] = True
            elif kind == "CALL" and vget(v, "dec") > 0 and not vget(v, "free_s1") and not vget(v, "free_raw") and not vget(v, "drops") and isinstance(detail, dict) and self._private_callee(detail.get("callee")):
                # the decrement lives in a private helper that only reports the verdict (`fn release_ref(&self) -> bool`):
                # a free later on this path is still "the free after the decrement" (shape S1)
                s2["dec_direct"] = True
            s2["pcalls"] = s2["pcalls"] + list(e.pcalls)
            s2["notes"] |= e.notes
            d = detail
            if e.exit != "ret":
                d = dict(detail) if isinstance(detail, dict) else {"what": detail}
                d["outcome"] = e.exit
                if s2["origin"] is None:
                    org = e.origin or "std"
                    if org in ("panic", "maypanic") and any("debug_assert" in m for m in t["span"].get("macros", [])):
                        org = "debug-assert"  # internal-invariant check, compiled out of release builds
                    s2["origin"] = org
                d["origin"] = s2["origin"]
            if e.tag is not None and e.exit == "ret" and isinstance(d, dict):
                d = dict(d)
                d["tag"] = e.tag
            emit(s2, kind, bb, t["span"], v, d)
            if dest_local is not None:
                s2["consts"].pop(dest_local, None)
                s2["tags"].pop(dest_local, None)
                if e.tag in ("True", "False") and e.exit == "ret":
                    s2["consts"][dest_local] = 1 if e.tag == "True" else 0
                elif e.tag is not None and e.exit == "ret":
                    s2["tags"][dest_local] = e.tag
            if e.exit == "ret":
                if target is None:
                    # a callee that returns although MIR has no return edge: unreachable by typing
                    continue
                nexts.append((target, s2))
            elif e.exit == "unw":
                nexts.append((("unwind", unwind), s2))
            else:
                nexts.append((("unwind", "terminate"), s2))

    def _is_pure_fn(self, key):
        try:
            effs = self.summary(key)
        except Exception:
            return False
        return bool(effs) and all(e.exit == "ret" and e.vec == ZERO and not getattr(e, "pcalls", None) for e in effs)

    def _fnptr_targets(self, body, t):
        """For an indirect call whose callee is a function-pointer parameter of a private function: the set of local function /
        closure bodies that the call sites pass for that parameter, or None if any of them cannot be told."""
        from . import cfg as _cfg

        f = self.f
        fp = (t.get("func") or {}).get("mv") or (t.get("func") or {}).get("cp")
        if fp is None or fp["p"] or body.get("kind") not in ("Fn", "AssocFn"):
            return None
        cache = self.__dict__.setdefault("_fnptr_cache", {})
        ck = (body["key"], fp["l"])
        if ck in cache:
            return cache[ck]
        cache[ck] = None
        B = _cfg.Body(body)
        o = B.origin_local(fp["l"])
        if o.get("kind") != "arg":
            return None
        vis_api = body.get("reachable", body.get("pub", True)) if "reachable" in body or "pub" in body else True
        from . import balance as _bal

        if _bal.is_api(f, body):
            return None
        j = o["arg"]
        out = set()
        sites = 0
        for c in f.body_list:
            CB = None
            for bl in c["blocks"]:
                ct = bl["term"]
                if ct["k"] != "call":
                    continue
                r = ct.get("resolved")
                k = r["def"] if isinstance(r, dict) else ct.get("callee")
                if k != body["key"] or len(ct["args"]) < j:
                    continue
                sites += 1
                CB = CB or _cfg.Body(c)
                ao = CB.origin(ct["args"][j - 1], through_casts=False)
                tgt = None
                if ao.get("kind") == "rvalue" and ao["rv"]["k"] == "cast" and "FnPointer" in str(ao["rv"].get("cast")):
                    opl = ao["rv"]["op"].get("mv") or ao["rv"]["op"].get("cp")
                    oty = f.ty(opl["ty"]) if opl is not None and "ty" in opl else (f.ty(ao["rv"]["op"]["c"]["ty"]) if "c" in ao["rv"]["op"] and "ty" in ao["rv"]["op"]["c"] else None)
                    if oty is not None and oty["k"] in ("closure", "fndef") and oty.get("def") in f.bodies:
                        tgt = oty["def"]
                if tgt is None:
                    return None
                out.add(tgt)
        cache[ck] = out if sites else None
        return cache[ck]

    def _call(self, body, t, bb, st, fork, emit, nexts):
        f = self.f
        dest = t["dest"]
        dl = dest["l"] if not dest["p"] else None
        if t.get("indirect"):
            tg = self._fnptr_targets(body, t)
            if tg is not None and all(self._is_pure_fn(k) for k in tg):
                # a function pointer parameter of a private function: every call site passes a function of this crate that
                # touches neither count nor ownership and cannot unwind (`|p| p as *mut _`, a re-typing helper)
                self._apply([mk()], "STD", {"callee": "(fn pointer: %s)" % ", ".join(sorted(tg))}, t, bb, st, fork, emit, nexts, dl)
                return
            self._apply([mk(v=vec(user=1)), mk(exit="unw", v=vec(user=1), origin="user")], "USER", {"callee": "(indirect)"}, t, bb, st, fork, emit, nexts, dl)
            return
        r = t.get("resolved")
        callee = t["callee"]
        rdef = r["def"] if isinstance(r, dict) else None
        # --- local callee
        lkey = None
        largs = None
        if isinstance(r, dict) and r["local"]:
            lkey, largs = r["def"], r["args"]
        elif t["callee_local"] and r == "unresolved":
            lkey = None  # local trait method on a parameter: user code
        elif t["callee_local"] and not isinstance(r, dict):
            lkey, largs = callee, t["callee_args"]
        if lkey is not None and lkey in f.bodies:
            effs = self.local_call_effects(lkey, largs)
            self._apply(effs, "CALL", {"callee": lkey}, t, bb, st, fork, emit, nexts, dl)
            return
        # --- unresolved: trait method on a type parameter / callable parameter
        if not isinstance(r, dict):
            st_i = t.get("callee_self")
            tr = t.get("callee_trait") or ""
            if tr in FN_TRAITS and st_i is not None:
                base = f.ty(f.strip_refs(st_i))
                if base["k"] == "param":
                    self._apply(
                        [mk(pcalls=[(base["name"], "ret")]), mk(exit="unw", pcalls=[(base["name"], "unw")])],
                        "PCALL",
                        {"param": base["name"]},
                        t,
                        bb,
                        st,
                        fork,
                        emit,
                        nexts,
                        dl,
                    )
                    return
            if tr in (f.raw.get("private_traits") or ()):
                # a method of a trait that cannot be implemented outside this crate, called on a type parameter (inside a provided
                # method, `self.pointee()`): it is one of the crate's own impls - if all of them are pure, so is the call
                cands = [it["key"] for im in f.impls if im.get("trait") == tr for it in im["items"] if it["name"] == t.get("callee_name") and it["key"] in f.bodies]
                if cands and all(self._is_pure_fn(k) for k in cands):
                    self._apply([mk()], "STD", {"callee": callee, "impls": len(cands)}, t, bb, st, fork, emit, nexts, dl)
                    return
            if tr == "core::clone::Clone":
                self._apply([mk(v=vec(uclone=1, user=1)), mk(exit="unw", v=vec(uclone=1, user=1), origin="user")], "UCLONE", {"callee": callee, "self": f.ts(st_i) if st_i is not None else "?"}, t, bb, st, fork, emit, nexts, dl)
                return
            self._apply([mk(v=vec(user=1)), mk(exit="unw", v=vec(user=1), origin="user")], "USER", {"callee": callee, "self": f.ts(st_i) if st_i is not None else "?"}, t, bb, st, fork, emit, nexts, dl)
            return
        # --- resolved to a non-local item
        kindr = r.get("kind", "")
        if kindr.startswith("ClosureOnceShim") or (rdef in f.bodies):
            effs = self.local_call_effects(rdef, r["args"])
            self._apply(effs, "CALL", {"callee": rdef}, t, bb, st, fork, emit, nexts, dl)
            return
        path = rdef
        effs, kind, detail = self.std_effects(path, callee, r["args"], t.get("arg_tys", []), t, st)
        if kind == "INTO":
            via = r.get("via_from")
            if via and via["local"] and via["def"] in f.bodies:
                effs = self.instantiate(self.summary(via["def"]), self.generic_map(via["def"], via["args"]))
                self._apply(effs, "CALL", {"callee": via["def"], "via": "Into::into"}, t, bb, st, fork, emit, nexts, dl)
                return
            targs = self.arg_types(r["args"])
            if any(f.tokens(x)[0] for x in targs):
                nn = frozenset({"UNSUPPORTED:Into::into of a handle resolved outside the crate"})
                effs = [mk(notes=nn)]
            else:
                effs = [mk(v=vec(user=1)), mk(exit="unw", v=vec(user=1), origin="user")]
            self._apply(effs, "USER", {"callee": path}, t, bb, st, fork, emit, nexts, dl)
            return
        if kind == "HO":
            self._higher_order(path, r, t, bb, st, fork, emit, nexts, dl)
            return
        if isinstance(detail, str):
            detail = {"callee": detail}
        # a tagged Result/Option asked for its variant: the answer is known on this path
        if path in VARIANT_QUERIES and t["args"]:
            al = operand_local(t["args"][0])
            tg = st["tags"].get(al) if al is not None else None
            if tg is None and al is not None:
                # asked through a reference: `(&r).is_err()`
                src = self._referent_local(al)
                tg = st["tags"].get(src) if src is not None else None
            if tg in VARIANT_QUERIES[path]:
                effs = [mk(tag="True" if VARIANT_QUERIES[path][tg] else "False")]
        # variant tag flow for Try::branch
        if model.classify(path)[0] == model.TRY_BRANCH and t["args"]:
            al = operand_local(t["args"][0])
            tg = st["tags"].get(al) if al is not None else None
            if tg in ("Ok", "Some"):
                effs = [mk(tag="Continue")]
            elif tg in ("Err", "None"):
                effs = [mk(tag="Break")]
        self._apply(effs, kind, detail, t, bb, st, fork, emit, nexts, dl)

    def _referent_local(self, l):
        """If local l of the body being walked is only ever `&x` / `&mut x` of a whole local x: x."""
        body = getattr(self, "_cur_body", None)
        if body is None:
            return None
        cache = self.__dict__.setdefault("_refdef_cache", {})
        m = cache.get(body["key"])
        if m is None:
            m = {}
            for bl in body["blocks"]:
                for s in bl["stmts"]:
                    if s["k"] == "assign" and not s["lhs"]["p"]:
                        ll = s["lhs"]["l"]
                        if s["rv"]["k"] == "ref" and not s["rv"]["place"]["p"]:
                            m[ll] = s["rv"]["place"]["l"] if ll not in m else None
                        else:
                            m[ll] = None
                t = bl["term"]
                if t["k"] == "call" and not t["dest"]["p"]:
                    m[t["dest"]["l"]] = None
            cache[body["key"]] = m
        return m.get(l)

    def _higher_order(self, path, r, t, bb, st, fork, emit, nexts, dl):
        f = self.f
        name = path.rsplit("::", 1)[-1]
        on_pos = name in ("map", "and_then", "is_some_and", "is_ok_and", "inspect", "filter", "map_or", "map_or_else")
        on_neg = name in ("map_err", "or_else", "unwrap_or_else", "ok_or_else", "is_err_and", "inspect_err", "get_or_insert_with")
        recv = operand_local(t["args"][0]) if t["args"] else None
        tag = st["tags"].get(recv) if recv is not None else None
        callables = [a["t"] for a in r["args"] if "t" in a and f.ty(f.strip_refs(a["t"]))["k"] in ("closure", "fndef", "param") and self._is_callable(a["t"], t)]
        called = None
        if tag in ("Ok", "Some"):
            called = True if on_pos else (False if on_neg else None)
        elif tag in ("Err", "None"):
            called = True if on_neg else (False if on_pos else None)
        out_tag = None
        if name in ("map", "inspect", "map_err", "inspect_err") and tag is not None:
            out_tag = tag
        alts = []
        is_then = name in ("then", "then_some") and path.startswith("<bool>") or path in ("core::bool::<impl bool>::then", "core::bool::<impl bool>::then_some")
        if is_then:
            # `cond.then(f)`: None without calling f, or Some(f()) - the result's variant says which
            recv_c = st["consts"].get(recv) if recv is not None else None
            called = None if recv_c is None else bool(recv_c)
        if called in (None, False):
            alts.append(mk(tag="None" if is_then else out_tag))
        if called in (None, True):
            if is_then and name == "then_some":
                alts.append(mk(tag="Some"))
            for c in callables:
                for e in self.callable_effects(c, "ret"):
                    alts.append(mk(e.exit, "Some" if is_then else out_tag, e.vec, e.pcalls, e.notes, (), e.origin))
                for e in self.callable_effects(c, "unw"):
                    alts.append(mk(e.exit, None, e.vec, e.pcalls, e.notes, (), e.origin))
        self._apply(dedup(alts), "HO", {"callee": path, "receiver_tag": tag}, t, bb, st, fork, emit, nexts, dl)

    def _is_callable(self, ty_idx, t):
        """A generic arg counts as the combinator's callable if a value of that type is passed as an argument."""
        base = self.f.strip_refs(ty_idx)
        return any(self.f.strip_refs(a) == base for a in t.get("arg_tys", []))


VARIANT_QUERIES = {
    "<core::result::Result<T, E>>::is_ok": {"Ok": True, "Err": False},
    "<core::result::Result<T, E>>::is_err": {"Ok": False, "Err": True},
    "<core::option::Option<T>>::is_some": {"Some": True, "None": False},
    "<core::option::Option<T>>::is_none": {"Some": False, "None": True},
}


def user_substitute(pr):
    """Read leftover symbolic parameter calls of a top-level path as calls of user callbacks."""
    return pr
