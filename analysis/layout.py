"""Layout algebra: repr(C) type layouts computed from the ADT table, and evaluation of `Layout` expressions
extracted from MIR (analysis/symx.py). Both sides are evaluated on the property's shape matrix."""
from . import symx

ISIZE_MAX = (1 << 63) - 1
INT_WIDTH = {"u8": 8, "i8": 8, "u16": 16, "i16": 16, "u32": 32, "i32": 32, "u64": 64, "i64": 64, "u128": 128, "i128": 128, "usize": 0, "isize": 0}  # 0: the target's pointer width


class Panic(Exception):
    pass


class Unknown(Exception):
    pass


class UB(Exception):
    pass


def round_up(x, a):
    return (x + a - 1) // a * a


PRIMS = {"u8": (1, 1), "i8": (1, 1), "bool": (1, 1), "u16": (2, 2), "i16": (2, 2), "u32": (4, 4), "i32": (4, 4), "char": (4, 4), "f32": (4, 4),
         "u64": (8, 8), "i64": (8, 8), "f64": (8, 8), "usize": (8, 8), "isize": (8, 8), "u128": (16, 16), "i128": (16, 16)}


class Layouts:
    def __init__(self, F):
        self.F = F
        self.word = F.pointer_bits // 8
        self.bits = F.pointer_bits
        self.imax = (1 << (self.bits - 1)) - 1  # isize::MAX of the target
        self.umod = 1 << self.bits  # usize arithmetic wraps here

    def type_layout(self, idx, shapes, tail_len=0, env=None, want_fields=False):
        """(size, align) of type idx; type parameters from `shapes` (name -> (size, align)); unsized tails use tail_len.
        Raises Unknown when the layout is not determined by repr(C)/repr(transparent) rules."""
        F = self.F
        t = F.ty(idx)
        k = t["k"]
        if k == "param":
            if env and t["name"] in env:
                ti, e2 = env[t["name"]]
                return self.type_layout(ti, shapes, tail_len, e2)
            if t["name"] in shapes:
                return shapes[t["name"]]
            raise Unknown("no shape for type parameter " + t["name"])
        if k == "prim":
            if t["s"] in PRIMS:
                return PRIMS[t["s"]]
            raise Unknown("primitive " + t["s"])
        if k == "str":
            return (tail_len, 1)
        if k == "never":
            return (0, 1)
        if k in ("ref", "ptr", "fnptr"):
            inner = F.ty(t["t"]) if k != "fnptr" else None
            fat = inner is not None and self.is_unsized(t["t"], env)
            return (self.word * (2 if fat else 1), self.word)
        if k == "tuple":
            if not t["ts"]:
                return (0, 1)
            raise Unknown("tuple layout is unspecified")
        if k == "slice":
            s, a = self.type_layout(t["t"], shapes, 0, env)
            return (s * tail_len, a)
        if k == "array":
            s, a = self.type_layout(t["t"], shapes, 0, env)
            try:
                n = int(str(t["len"]).split("_")[0])
            except ValueError:
                raise Unknown("array length " + str(t["len"]))
            return (s * n, a)
        if k == "adt":
            p = t["path"]
            targs = [a["t"] for a in t["args"] if "t" in a]
            if p.startswith("core::sync::atomic::Atomic"):
                return self.type_layout(targs[0], shapes, 0, env) if targs else (self.word, self.word)
            if p in ("core::mem::maybe_uninit::MaybeUninit", "core::mem::manually_drop::ManuallyDrop", "core::cell::UnsafeCell", "core::cell::Cell"):
                return self.type_layout(targs[0], shapes, tail_len, env)
            if p == "core::marker::PhantomData":
                return (0, 1)
            if p == "core::ptr::non_null::NonNull":
                fat = self.is_unsized(targs[0], env)
                return (self.word * (2 if fat else 1), self.word)
            if t["local"] and p in F.adts:
                adt = F.adts[p]
                if adt["kind"] != "Struct":
                    raise Unknown("layout of non-struct " + p)
                names = [g["name"] for g in adt["generics"] if g["kind"] == "type"]
                e2 = {n: (ti, env) for n, ti in zip(names, targs)}
                fields = adt["variants"][0]["fields"]
                if adt["repr_transparent"]:
                    best = (0, 1)
                    for f in fields:
                        s, a = self.type_layout(f["ty"], shapes, tail_len, e2)
                        if s > 0 or a > 1 or self.is_unsized(f["ty"], e2):
                            best = (s, a)
                    return best
                if not adt["repr_c"]:
                    raise Unknown("%s is neither repr(C) nor repr(transparent): field order and padding are unspecified" % p)
                size, align = 0, 1
                offs = []
                for i, f in enumerate(fields):
                    last = i == len(fields) - 1
                    s, a = self.type_layout(f["ty"], shapes, tail_len if last else 0, e2)
                    off = round_up(size, a)
                    offs.append(off)
                    size = off + s
                    align = max(align, a)
                size = round_up(size, align)
                if want_fields:
                    return (size, align, offs)
                return (size, align)
            raise Unknown("layout of " + p)
        raise Unknown("layout of " + t["s"])

    def is_unsized(self, idx, env=None):
        F = self.F
        t = F.ty(idx)
        k = t["k"]
        if k in ("slice", "str", "dyn"):
            return True
        if k == "param" and env and t["name"] in env:
            ti, e2 = env[t["name"]]
            return self.is_unsized(ti, e2)
        if k == "adt" and t["local"] and t["path"] in F.adts:
            adt = F.adts[t["path"]]
            if adt["kind"] != "Struct" or not adt["variants"][0]["fields"]:
                return False
            names = [g["name"] for g in adt["generics"] if g["kind"] == "type"]
            targs = [a["t"] for a in t["args"] if "t" in a]
            e2 = {n: (ti, env) for n, ti in zip(names, targs)}
            return self.is_unsized(adt["variants"][0]["fields"][-1]["ty"], e2)
        if k == "adt" and t["path"] in ("core::mem::maybe_uninit::MaybeUninit", "core::mem::manually_drop::ManuallyDrop"):
            targs = [a["t"] for a in t["args"] if "t" in a]
            return self.is_unsized(targs[0], env)
        return False

    # ------------------------------------------------------------------ expression evaluation
    def _width(self, e):
        """Bit width an integer expression is computed in: the target's pointer width unless it was widened (`len as u64 * ..`)."""
        if isinstance(e, tuple) and e:
            if e[0] == "cast" and len(e) > 3 and e[3] in INT_WIDTH:
                return INT_WIDTH[e[3]] or self.bits
            if e[0] == "bin":
                return max(self._width(e[2]), self._width(e[3]))
            if e[0] == "call" and e[2] in ("min", "max") and len(e[3]) == 2:
                return max(self._width(e[3][0]), self._width(e[3][1]))
        return self.bits

    def eval(self, e, shapes, args, tail_len=0):
        """Evaluate a symx expression to: int | ('L', size, align) | tuple | ('ERR',)."""
        k = e[0]
        if k == "const":
            return e[1]
        if k == "arg":
            if e[1] in args:
                return args[e[1]]
            raise Unknown("argument %d has no value" % e[1])
        if k == "constx" and len(e) > 2:
            # an associated constant of a generic impl (`Self::PREFIX_SIZE`): its initialiser, evaluated for these shapes
            cb = next((c for c in self.F.raw.get("const_bodies", []) if c.get("key") == e[2]), None)
            if cb is None:
                raise Unknown("constant " + str(e[1]))
            from . import cfg as _cfg

            return self.eval(symx.local_expr(self.F, _cfg.Body(cb), 0, 0), shapes, {}, tail_len)
        if k == "addr":
            return self.eval(e[1], shapes, args, tail_len)
        if k == "proj":
            if all(n == "*" for n in e[2]):
                return self.eval(e[1], shapes, args, tail_len)
            raise Unknown("projection " + symx.show(e))
        if k == "tfield":
            v = self.eval(e[1], shapes, args, tail_len)
            if isinstance(v, tuple) and v and v[0] == "T":
                return v[1 + e[2]]
            raise Unknown("tuple field of " + str(v)[:40])
        if k == "cast":
            v = self.eval(e[2], shapes, args, tail_len)
            w = INT_WIDTH.get(e[3] if len(e) > 3 else None)
            if isinstance(v, int) and w is not None:
                w = self.bits if w == 0 else w
                return v & ((1 << w) - 1)  # `wide as usize` keeps the low bits
            return v
        if k == "bin":
            a = self.eval(e[2], shapes, args, tail_len)
            b = self.eval(e[3], shapes, args, tail_len)
            if not isinstance(a, int) or not isinstance(b, int):
                raise Unknown("arithmetic on non-integers")
            op = e[1].replace("Unchecked", "")
            if op in ("Eq", "Ne", "Lt", "Le", "Gt", "Ge"):
                return int({"Eq": a == b, "Ne": a != b, "Lt": a < b, "Le": a <= b, "Gt": a > b, "Ge": a >= b}[op])
            wo = op.endswith("WithOverflow")
            op = op.replace("WithOverflow", "")
            try:
                r = {"Add": lambda: a + b, "Sub": lambda: a - b, "Mul": lambda: a * b, "Rem": lambda: a % b, "Div": lambda: a // b, "BitAnd": lambda: a & b,
                     "BitOr": lambda: a | b, "BitXor": lambda: a ^ b, "Shl": lambda: a << b, "Shr": lambda: a >> b}[op]()
            except KeyError:
                raise Unknown("operator " + op)
            except ZeroDivisionError:
                raise Panic()
            mod = 1 << max(self._width(e[2]), self._width(e[3]))
            if not wo and (r < 0 or r >= mod) and op in ("Add", "Sub", "Mul"):
                r &= mod - 1  # release-mode wrapping (debug builds would panic)
            if wo:
                return ("T", r & (mod - 1), int(r < 0 or r >= mod))
            return r
        if k == "call":
            path, name = e[1], e[2]
            a = e[3]
            gi = e[6] if len(e) > 6 else ()
            if path == "<core::alloc::layout::Layout>::new":
                s, al = self.type_layout(gi[0], shapes, 0)
                return ("L", s, al)
            if path == "<core::alloc::layout::Layout>::for_value":
                s, al = self.type_layout(gi[0], shapes, tail_len)
                return ("L", s, al)
            if path == "<core::alloc::layout::Layout>::array":
                n = self.eval(a[0], shapes, args, tail_len)
                s, al = self.type_layout(gi[0], shapes, 0)
                tot = s * n
                if tot > self.imax - (al - 1):
                    return ("ERR",)
                return ("L", tot, al)
            if path == "<core::alloc::layout::Layout>::extend":
                x = self.eval(a[0], shapes, args, tail_len)
                y = self.eval(a[1], shapes, args, tail_len)
                if x == ("ERR",) or y == ("ERR",):
                    raise Unknown("extend applied to an unchecked error")
                _, xs, xa = x
                _, ys, ya = y
                na = max(xa, ya)
                off = round_up(xs, ya)
                ns = off + ys
                if ns > self.imax - (na - 1):
                    return ("ERR",)
                return ("T", ("L", ns, na), off)
            if path == "<core::alloc::layout::Layout>::pad_to_align":
                _, s, al = self.eval(a[0], shapes, args, tail_len)
                return ("L", round_up(s, al), al)
            if path in ("<core::alloc::layout::Layout>::from_size_align",):
                s = self.eval(a[0], shapes, args, tail_len)
                al = self.eval(a[1], shapes, args, tail_len)
                if al == 0 or al & (al - 1) or s > self.imax - (al - 1):
                    return ("ERR",)
                return ("L", s, al)
            if path == "<core::alloc::layout::Layout>::from_size_align_unchecked":
                s = self.eval(a[0], shapes, args, tail_len)
                al = self.eval(a[1], shapes, args, tail_len)
                return ("L", s, al)
            if path == "<core::alloc::layout::Layout>::align_to":
                _, s, al = self.eval(a[0], shapes, args, tail_len)
                al2 = self.eval(a[1], shapes, args, tail_len)
                if al2 == 0 or al2 & (al2 - 1):
                    return ("ERR",)
                na = max(al, al2)
                if s > self.imax - (na - 1):
                    return ("ERR",)
                return ("L", s, na)
            if path == "<core::alloc::layout::Layout>::padding_needed_for":
                _, s, al = self.eval(a[0], shapes, args, tail_len)
                al2 = self.eval(a[1], shapes, args, tail_len)
                return round_up(s, al2) - s
            if path == "<core::alloc::layout::Layout>::repeat":
                _, s, al = self.eval(a[0], shapes, args, tail_len)
                n = self.eval(a[1], shapes, args, tail_len)
                ps = round_up(s, al)
                if ps * n > self.imax - (al - 1):
                    return ("ERR",)
                return ("T", ("L", ps * n, al), ps)
            if path in ("<core::alloc::layout::Layout>::size", "<core::alloc::layout::Layout>::align"):
                _, s, al = self.eval(a[0], shapes, args, tail_len)
                return s if path.endswith("size") else al
            if path in ("core::mem::size_of", "core::mem::align_of"):
                s, al = self.type_layout(gi[0], shapes, 0)
                return s if path.endswith("size_of") else al
            if path in ("core::mem::size_of_val", "core::mem::align_of_val", "core::mem::size_of_val_raw", "core::mem::align_of_val_raw"):
                s, al = self.type_layout(gi[0], shapes, tail_len)
                return s if "size_of" in path else al
            if path in ("<usize>::max", "<usize>::min", "core::cmp::max", "core::cmp::min", "core::cmp::Ord::max", "core::cmp::Ord::min") and len(a) == 2:
                x = self.eval(a[0], shapes, args, tail_len)
                y = self.eval(a[1], shapes, args, tail_len)
                return max(x, y) if name == "max" else min(x, y)
            if name in ("wrapping_neg", "trailing_zeros", "leading_zeros", "count_ones", "is_power_of_two", "next_power_of_two") and len(a) == 1 and path.startswith("<usize>"):
                x = self.eval(a[0], shapes, args, tail_len)
                if not isinstance(x, int):
                    raise Unknown("integer method on a non-integer")
                if name == "wrapping_neg":
                    return (-x) & (self.umod - 1)
                if name == "trailing_zeros":
                    return self.bits if x == 0 else (x & -x).bit_length() - 1
                if name == "leading_zeros":
                    return self.bits - x.bit_length()
                if name == "count_ones":
                    return bin(x).count("1")
                if name == "is_power_of_two":
                    return int(x != 0 and x & (x - 1) == 0)
                r = 1
                while r < x:
                    r <<= 1
                if r >= self.umod:
                    raise Panic()
                return r
            if name == "saturating_mul" and len(a) == 2:
                x = self.eval(a[0], shapes, args, tail_len)
                y = self.eval(a[1], shapes, args, tail_len)
                return min(x * y, self.umod - 1)
            if name in ("wrapping_add", "wrapping_sub", "wrapping_mul", "saturating_sub", "saturating_add", "next_multiple_of") and len(a) == 2:
                x = self.eval(a[0], shapes, args, tail_len)
                y = self.eval(a[1], shapes, args, tail_len)
                if name == "wrapping_add":
                    return (x + y) & (self.umod - 1)
                if name == "wrapping_sub":
                    return (x - y) & (self.umod - 1)
                if name == "wrapping_mul":
                    return (x * y) & (self.umod - 1)
                if name == "saturating_sub":
                    return max(x - y, 0)
                if name == "saturating_add":
                    return min(x + y, self.umod - 1)
                return round_up(x, y)
            if name in ("checked_add", "checked_mul", "checked_sub", "checked_next_multiple_of") and len(a) == 2 and path.startswith("<usize>"):
                x = self.eval(a[0], shapes, args, tail_len)
                y = self.eval(a[1], shapes, args, tail_len)
                if not isinstance(x, int) or not isinstance(y, int):
                    raise Unknown("checked arithmetic on non-integers")
                if name == "checked_next_multiple_of":
                    if y == 0:
                        return ("ERR",)
                    r = round_up(x, y)
                else:
                    r = {"checked_add": x + y, "checked_mul": x * y, "checked_sub": x - y}[name]
                return ("ERR",) if r < 0 or r >= self.umod else r
            if path in ("<core::option::Option<T>>::and_then", "<core::option::Option<T>>::map", "<core::result::Result<T, E>>::and_then", "<core::result::Result<T, E>>::map") and len(a) == 2:
                v = self.eval(a[0], shapes, args, tail_len)
                if v == ("ERR",):
                    return v
                if not isinstance(v, int):
                    raise Unknown("closure applied to a non-integer")
                r = symx.inline_closure_call(self.F, ("call", symx.CALL_TRAIT_FNS[0], "call_once", (a[1], ("agg", "tuple", None, None, (("const", v),), (), None)), (), None, (), ()))
                if r is None:
                    raise Unknown("closure of " + name + " is not one expression")
                return self.eval(r, shapes, args, tail_len)
            if path in ("<core::option::Option<T>>::ok_or", "<core::result::Result<T, E>>::ok", "<core::result::Result<T, E>>::map_err", "<core::option::Option<T>>::ok_or_else") and a:
                return self.eval(a[0], shapes, args, tail_len)
            if name in ("try_from", "try_into") and a and "TryFrom<" in path or name == "try_into" and a:
                # `usize::try_from(wide)`: the value if it fits the target type, an error otherwise
                import re as _re

                m = _re.match(r"^<(\w+) as core::convert::TryFrom<", path) or _re.search(r"TryInto<(\w+)>", path)
                w = INT_WIDTH.get(m.group(1)) if m else None
                if w is not None:
                    w = self.bits if w == 0 else w
                    x = self.eval(a[0], shapes, args, tail_len)
                    if isinstance(x, int):
                        return x if 0 <= x < (1 << w) else ("ERR",)
            if name in ("eq", "ne") and len(a) == 2 and "core::cmp::PartialEq" in path:
                x = self.eval(a[0], shapes, args, tail_len)
                y = self.eval(a[1], shapes, args, tail_len)
                return int((x == y) == (name == "eq"))
            if path in ("<core::result::Result<T, E>>::unwrap", "<core::result::Result<T, E>>::expect", "<core::option::Option<T>>::unwrap", "<core::option::Option<T>>::expect"):
                v = self.eval(a[0], shapes, args, tail_len)
                if v == ("ERR",):
                    raise Panic()
                return v
            if path in ("<core::result::Result<T, E>>::unwrap_unchecked", "<core::option::Option<T>>::unwrap_unchecked"):
                v = self.eval(a[0], shapes, args, tail_len)
                if v == ("ERR",):
                    raise UB()
                return v
            if path == "<[T]>::len" or path == "<alloc::vec::Vec<T, A>>::len":
                return tail_len
            r = symx.inline_call(self.F, e)  # a private helper whose result is one expression of its arguments
            if r is not None:
                return self.eval(r, shapes, args, tail_len)
            raise Unknown("call " + path)
        if k == "un" and e[1] == "Not":
            a = self.eval(e[2], shapes, args, tail_len)
            ty = e[3] if len(e) > 3 else None
            if isinstance(a, int) and ty in INT_WIDTH:
                # `!x` on an integer (`(size + align - 1) & !(align - 1)`): bitwise complement at the type's width
                w = INT_WIDTH[ty] or self.bits
                return (~a) & ((1 << w) - 1)
            if isinstance(a, int) and a in (0, 1) and ty in (None, "bool"):
                return 1 - a
            raise Unknown("negation of a non-boolean")
        if k == "cases":
            # path-sensitive summary of a helper with early returns (`if size_of::<H>() == 0 { return slice; }`): the branch
            # conditions are integer expressions over the same shapes
            for conds, val in e[1]:
                hit = True
                for d, rel, v in conds:
                    x = self.eval(d, shapes, args, tail_len)
                    if not isinstance(x, int):
                        raise Unknown("branch condition is not an integer")
                    if (rel == "eq" and x != v) or (rel == "notin" and x in v):
                        hit = False
                        break
                if hit:
                    return self.eval(val, shapes, args, tail_len)
            raise Unknown("no case of the summary applies")
        raise Unknown("node " + str(k))


def shape_list(full):
    out = []
    for a in (1, 2, 4, 8, 16, 32, 64):
        sizes = list(range(0, 65, a)) if full else sorted(set([0, a, 3 * a if 3 * a <= 64 else a, 64 // a * a]))
        for s in sizes:
            out.append((s, a))
    return out


def len_list(full, bits=64):
    base = list(range(0, 18)) if full else [0, 1, 2, 3, 7, 17]
    return base + [1 << 20, (1 << (bits - 3)) + 5, (1 << (bits - 1)) - 1, (1 << bits) - 1]
