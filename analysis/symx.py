"""Symbolic expression extraction over MIR def-use chains (straight-line), and integer evaluation.

Used where a property is about *which* function of an input a value is (tag bits, layout
expressions): the expression is extracted from the source on every run and evaluated on a
finite matrix; nothing of the analysed crate is executed.
"""
from . import model
from .facts import operand_const, operand_place, place_str

IDENTITY_CALLS = (
    "<alloc::boxed::Box<T, A>>::leak",
    "<alloc::boxed::Box<T, alloc::alloc::Global>>::leak",
    "<alloc::boxed::Box<T, alloc::alloc::Global>>::into_raw",
    "<alloc::boxed::Box<T, A>>::into_raw",
    "<core::ptr::non_null::NonNull<T> as core::convert::From<&mut T>>::from",
    "<core::ptr::non_null::NonNull<T> as core::convert::From<&T>>::from",
    "<core::ptr::non_null::NonNull<T>>::as_ptr",
    "<core::ptr::non_null::NonNull<T>>::as_ref",
    "<core::ptr::non_null::NonNull<T>>::as_mut",
    "<core::ptr::non_null::NonNull<T>>::new_unchecked",
    "<core::ptr::non_null::NonNull<T>>::cast",
    "<*const T>::cast",
    "<*mut T>::cast",
    "<*const T>::cast_mut",
    "<*mut T>::cast_const",
    "<core::ptr::non_null::NonNull<T>>::as_mut",
    "<core::ptr::non_null::NonNull<T>>::as_ref",
)


def callee_of(t):
    r = t.get("resolved")
    return r["def"] if isinstance(r, dict) else t.get("callee")


def expr(F, B, op, depth=0):
    if depth > 60:
        return ("unknown", "depth")
    c = operand_const(op)
    if c is not None:
        if "int" in c:
            return ("const", c["int"])
        return ("constx", c.get("text"), c["unevaluated"]) if c.get("unevaluated") else ("constx", c.get("text"))
    pl = operand_place(op)
    if pl is None:
        return ("unknown", "operand")
    return place_expr(F, B, pl, depth)


def place_expr(F, B, pl, depth):
    if pl["p"]:
        # projection of a local: describe root + field names
        return project(local_expr(F, B, pl["l"], depth + 1), pl)
    return local_expr(F, B, pl["l"], depth)


class DC(str):
    """The projection name of a downcast: equal to "?" for every consumer that does not care, but remembers the variant."""

    def __new__(cls, variant):
        o = str.__new__(cls, "?")
        o.variant = variant
        return o


def project(root, pl):
    """Expression of place `pl` given the expression of its base local."""
    if True:
        names = []
        for pe in pl["p"]:
            if pe == "deref":
                names.append("*")
            elif isinstance(pe, dict) and "f" in pe:
                names.append(pe.get("name", str(pe["f"])))
            elif isinstance(pe, dict) and "dc" in pe:
                names.append(DC(str(pe.get("name", pe.get("dc")))))
            else:
                names.append("?")
        # tuple field of a tuple-valued expression
        if len(pl["p"]) == 1 and isinstance(pl["p"][0], dict) and pl["p"][0].get("adt") == "(tuple)":
            if root[0] == "agg" and root[1] == "tuple" and pl["p"][0]["f"] < len(root[4]):
                return root[4][pl["p"][0]["f"]]
            return ("tfield", root, pl["p"][0]["f"])
        # `*(&place)` is the place
        while names and names[0] == "*" and root[0] == "addr" and (len(root) < 4 or root[3] == "raw"):
            root = root[1]
            names = names[1:]
        # a field of an enum value that was just built, behind the downcast to its own variant: `(Ok(x) as Ok).0` is `x`
        if len(names) >= 2 and names[0] == "?" and root[0] == "agg" and root[1] == "adt" and len(root) > 5 and len(root[4]) >= 1:
            dc = next((pe for pe in pl["p"] if isinstance(pe, dict) and "dc" in pe), None)
            fld = next((pe for pe in pl["p"] if isinstance(pe, dict) and "f" in pe), None)
            if dc is not None and fld is not None and (root[3] is None or str(dc.get("name", dc.get("dc"))) == str(root[3])) and isinstance(fld["f"], int) and fld["f"] < len(root[4]):
                root, names = root[4][fld["f"]], names[2:]
                if not names:
                    return root
        # a field of a struct value that was just built: `Allocation { inner: p }.inner` is `p` (also behind `&`: `(*&a).inner`)
        for _ in range(4):
            r2, n2 = root, names
            while n2 and n2[0] == "*" and r2[0] == "addr":
                r2, n2 = r2[1], n2[1:]
            if n2 and r2[0] == "agg" and r2[1] == "adt" and len(r2) > 5 and n2[0] in r2[5] and len(r2[5]) == len(r2[4]):
                root, names = r2[4][r2[5].index(n2[0])], n2[1:]
            else:
                break
        if not names:
            return root
        if root[0] == "proj":
            return ("proj", root[1], tuple(root[2]) + tuple(names))
        return ("proj", root, tuple(names))


def local_expr(F, B, l, depth):
    if depth > 60:
        return ("unknown", "depth")
    ds = B.defs().get(l, [])
    if B.is_arg(l) and not ds:
        return ("arg", l)
    if len(ds) == 2:
        # loop-carried pointer: `cur = init; loop { ..; cur = cur.offset(1) }`
        for step, init in ((ds[0], ds[1]), (ds[1], ds[0])):
            st = _step_call(B, step)
            if st is None:
                continue
            t, bb = st
            a0 = operand_place(t["args"][0])
            k = operand_const(t["args"][1])
            if a0 is None or a0["p"] or k is None or "int" not in k:
                continue
            src = a0["l"]
            sd = B.defs().get(src, [])
            same = src == l or (len(sd) == 1 and sd[0][0] == "assign" and sd[0][3]["k"] == "use" and (operand_place(sd[0][3]["op"]) or {}).get("l") == l)
            if not same:
                continue
            if init[0] == "assign" and init[3]["k"] == "use":
                return ("induction", expr(F, B, init[3]["op"], depth + 1), k["int"], bb)
            if init[0] == "call":
                t2 = init[2]
                c = callee_of(t2)
                args = [expr(F, B, a, depth + 1) for a in t2["args"]]
                if c in IDENTITY_CALLS and args:
                    return ("induction", args[0], k["int"], bb)
                name = (F.body(c) or {}).get("name") or t2.get("callee_name") or c
                return ("induction", ("call", c, name, tuple(args), (), init[1], ()), k["int"], bb)
    if len(ds) != 1:
        return ("unknown", "local _%d has %d definitions" % (l, len(ds)))
    d = ds[0]
    if d[0] == "call":
        t = d[2]
        c = callee_of(t)
        args = [expr(F, B, a, depth + 1) for a in t["args"]]
        if t.get("indirect") and t.get("func"):
            # a call through a function pointer: `f(x)` is `call_once(f, (x,))` - resolved like any other callable value when
            # the pointer is visibly a closure / function of this crate (after the helper taking it was inlined)
            fe = expr(F, B, t["func"], depth + 1)
            return ("call", CALL_TRAIT_FNS[0], "call_once", (fe, ("agg", "tuple", None, None, tuple(args), (), None)), (), d[1], (), ())
        if c in IDENTITY_CALLS and args:
            return args[0]
        r = t.get("resolved")
        gargs = r["args"] if isinstance(r, dict) else (t.get("callee_args") or [])
        gs = tuple(F.ts(a["t"]) for a in gargs if "t" in a)
        gi = tuple(a["t"] for a in gargs if "t" in a)
        name = (F.body(c) or {}).get("name") or t.get("callee_name") or c
        return ("call", c, name, tuple(args), gs, d[1], gi, tuple(("t", a["t"]) if "t" in a else ("o", None) for a in gargs))
    rv = d[3]
    k = rv["k"]
    if k == "use":
        r = expr(F, B, rv["op"], depth + 1)
        pl0 = operand_place(rv["op"])
        if r[0] == "agg" and r[1] == "adt" and pl0 is not None and not pl0["p"] and len(r) > 5 and len(r[5]) == len(r[4]):
            # the struct value was moved here (`let mut fill = SliceFill::new(..)`): fields stepped in this home count as well
            ops = list(r[4])
            for fi, fname in enumerate(r[5]):
                st = _field_steps(B, l, fi)
                if st is None:
                    continue
                ops[fi] = ("unknown", "field %s of _%d is assigned again" % (fname, l)) if st == "other" or ops[fi][0] == "induction" else ("induction", ops[fi], st[0], st[1])
            r = r[:4] + (tuple(ops),) + r[5:]
        return r
    if k == "cast":
        return ("cast", rv["cast"].split("(")[0], expr(F, B, rv["op"], depth + 1), F.ts(rv["ty"]))
    if k == "binop":
        return ("bin", rv["op"], expr(F, B, rv["a"], depth + 1), expr(F, B, rv["b"], depth + 1))
    if k == "unop":
        return ("un", rv["op"], expr(F, B, rv["a"], depth + 1), F.ts(B.b["locals"][l]["ty"]))
    if k in ("ref", "rawptr"):
        return ("addr", place_expr(F, B, rv["place"], depth + 1), place_str(rv["place"]), "raw" if k == "rawptr" else "ref")
    if k == "agg":
        ops = [expr(F, B, o, depth + 1) for o in rv["ops"]]
        fields = tuple(rv.get("fields") or ())
        if rv.get("agg") == "adt" and len(fields) == len(ops):
            # fields assigned again after the value was built (`guard.filled += 1`): the aggregate's operand is only the initial
            # value - a counter stepped by a constant becomes an induction node, anything else is unknown
            for fi, fname in enumerate(fields):
                st = _field_steps(B, l, fi)
                if st is None:
                    continue
                if st == "other":
                    ops[fi] = ("unknown", "field %s of _%d is assigned again" % (fname, l))
                else:
                    ops[fi] = ("induction", ops[fi], st[0], st[1])
        return ("agg", rv.get("agg"), rv.get("def") if rv.get("agg") == "closure" else rv.get("adt"), rv.get("variant"), tuple(ops), fields, rv.get("vi"))
    if k == "discr":
        return ("discr", place_expr(F, B, rv["place"], depth + 1))
    return ("unknown", k)


def _field_steps(B, l, fi):
    """Direct assignments to field fi of local l after its construction: None if there are none, (k, bb) if the only one is
    `l.f = l.f + k` for a constant k (also in the overflow-checked form), 'other' otherwise."""
    cache = B.__dict__.setdefault("_field_steps_cache", {})
    if (l, fi) in cache:
        return cache[(l, fi)]
    hits = []
    # references to the whole local (`&mut guard`, as the inlined `self` of its methods) through which the field is written too
    alias = set()
    changed = True
    while changed:
        changed = False
        for bl in B.blocks:
            for s in bl["stmts"]:
                if s["k"] != "assign" or s["lhs"]["p"] or s["lhs"]["l"] in alias:
                    continue
                rv = s["rv"]
                if rv["k"] in ("ref", "rawptr") and ((rv["place"]["l"] == l and not rv["place"]["p"]) or (rv["place"]["l"] in alias and rv["place"]["p"] == ["deref"])):
                    alias.add(s["lhs"]["l"])
                    changed = True
                elif rv["k"] == "use":
                    pl = operand_place(rv["op"])
                    if pl is not None and pl["l"] in alias and not pl["p"]:
                        alias.add(s["lhs"]["l"])
                        changed = True

    def field_place(pl):
        if pl is None:
            return False
        if pl["l"] == l and len(pl["p"]) == 1 and isinstance(pl["p"][0], dict) and pl["p"][0].get("f") == fi:
            return True
        return pl["l"] in alias and len(pl["p"]) == 2 and pl["p"][0] == "deref" and isinstance(pl["p"][1], dict) and pl["p"][1].get("f") == fi

    for bi, bl in enumerate(B.blocks):
        for s in bl["stmts"]:
            if s["k"] == "assign" and field_place(s["lhs"]):
                hits.append((bi, s))
        t = bl["term"]
        if t["k"] == "call" and t["dest"]["p"] and (field_place(t["dest"]) or (t["dest"]["l"] == l and isinstance(t["dest"]["p"][0], dict) and t["dest"]["p"][0].get("f") == fi)):
            hits.append((bi, None))
    res = None
    if hits:
        res = "other"
        if len(hits) == 1 and hits[0][1] is not None:
            bi, s = hits[0]
            rv = s["rv"]

            def is_self_field(op):
                return field_place(operand_place(op))

            binop = None
            if rv["k"] == "binop":
                binop = rv
            elif rv["k"] == "use":
                pl = operand_place(rv["op"])
                if pl is not None and len(pl["p"]) == 1 and isinstance(pl["p"][0], dict) and pl["p"][0].get("adt") == "(tuple)" and pl["p"][0].get("f") == 0:
                    d = B.single_def(pl["l"])
                    if d and d[0] == "assign" and d[3]["k"] == "binop":
                        binop = d[3]
            if binop is not None and binop["op"].replace("WithOverflow", "").replace("Unchecked", "") == "Add":
                k = operand_const(binop["b"]) if is_self_field(binop["a"]) else (operand_const(binop["a"]) if is_self_field(binop["b"]) else None)
                if k is not None and "int" in k:
                    res = (k["int"], bi)
    cache[(l, fi)] = res
    return res


def _step_call(B, d):
    """If definition d is `x = ptr.offset/add(k)` (directly or through one move), return (call term, bb)."""
    steps = ("<*mut T>::offset", "<*mut T>::add", "<*const T>::offset", "<*const T>::add")
    if d[0] == "call" and callee_of(d[2]) in steps and len(d[2]["args"]) == 2:
        return d[2], d[1]
    if d[0] == "assign" and d[3]["k"] == "use":
        pl = operand_place(d[3]["op"])
        if pl is not None and not pl["p"]:
            sd = B.defs().get(pl["l"], [])
            if len(sd) == 1 and sd[0][0] == "call" and callee_of(sd[0][2]) in steps and len(sd[0][2]["args"]) == 2:
                return sd[0][2], sd[0][1]
    return None


def path_cases(F, b, max_paths=48):
    """Path-sensitive value summary of a loop-free function whose result is assigned on several branches
    (`if addr & MASK == 0 { Variant::First } else { Variant::Second }`): [(conditions, result expression)] with
    conditions = [(discriminant expression, 'eq', value) | (discriminant expression, 'notin', [values])], all over the arguments.
    None if the body has a loop, too many paths or something the extractor does not describe."""
    from . import cfg

    B = cfg.Body(b)
    blocks = b["blocks"]
    out = []
    budget = [0]

    def opx(op, env):
        c = operand_const(op)
        if c is not None:
            return ("const", c["int"]) if "int" in c else (("constx", c.get("text"), c["unevaluated"]) if c.get("unevaluated") else ("constx", c.get("text")))
        pl = operand_place(op)
        if pl is None:
            return ("unknown", "operand")
        base = env.get(pl["l"])
        if base is None:
            base = ("arg", pl["l"]) if B.is_arg(pl["l"]) else ("unknown", "local _%d undefined on this path" % pl["l"])
        return project(base, pl) if pl["p"] else base

    def rvx(rv, env):
        k = rv["k"]
        if k == "use":
            return opx(rv["op"], env)
        if k == "cast":
            return ("cast", rv["cast"].split("(")[0], opx(rv["op"], env), F.ts(rv["ty"]))
        if k == "binop":
            return ("bin", rv["op"], opx(rv["a"], env), opx(rv["b"], env))
        if k == "unop":
            return ("un", rv["op"], opx(rv["a"], env), rv.get("_lhs_ty"))
        if k in ("ref", "rawptr"):
            base = env.get(rv["place"]["l"])
            if base is None:
                base = ("arg", rv["place"]["l"]) if B.is_arg(rv["place"]["l"]) else ("unknown", "undefined")
            inner = project(base, rv["place"]) if rv["place"]["p"] else base
            return ("addr", inner, place_str(rv["place"]), "raw" if k == "rawptr" else "ref")
        if k == "agg":
            return ("agg", rv.get("agg"), rv.get("def") if rv.get("agg") == "closure" else rv.get("adt"), rv.get("variant"), tuple(opx(o, env) for o in rv["ops"]), tuple(rv.get("fields") or ()), rv.get("vi"))
        if k == "discr":
            base = env.get(rv["place"]["l"])
            if base is None:
                base = ("arg", rv["place"]["l"]) if B.is_arg(rv["place"]["l"]) else ("unknown", "undefined")
            return ("discr", project(base, rv["place"]) if rv["place"]["p"] else base)
        return ("unknown", k)

    def go(bi, env, conds, seen):
        if budget[0] > max_paths:
            raise OverflowError
        if bi in seen:
            raise OverflowError  # a loop
        seen = seen | {bi}
        env = dict(env)
        bl = blocks[bi]
        for st in bl["stmts"]:
            if st["k"] != "assign":
                continue
            lhs = st["lhs"]
            if lhs["p"]:
                env[lhs["l"]] = ("unknown", "partial write")
            else:
                rv0 = st["rv"]
                if rv0["k"] == "unop":
                    rv0 = dict(rv0)
                    rv0["_lhs_ty"] = F.ts(b["locals"][lhs["l"]]["ty"])
                env[lhs["l"]] = rvx(rv0, env)
        t = bl["term"]
        k = t["k"]
        if k == "return":
            budget[0] += 1
            out.append((list(conds), env.get(0, ("unknown", "no result"))))
        elif k == "goto":
            go(t["target"], env, conds, seen)
        elif k == "switch":
            d = opx(t["discr"], env)
            if d[0] == "discr" and d[1][0] == "agg" and d[1][1] == "adt" and len(d[1]) > 6 and isinstance(d[1][6], int):
                # the discriminant of a value built on this very path (`Ok(x)` matched right away): only its own arm is feasible
                vi = d[1][6]
                tg = next((tg2 for v, tg2 in t["arms"] if v == vi), t["otherwise"])
                go(tg, env, conds, seen)
                return
            by_tgt = {}
            for v, tg in t["arms"]:
                by_tgt.setdefault(tg, []).append(v)
            for tg, vs in by_tgt.items():
                if tg == t["otherwise"]:
                    continue
                for v in vs:
                    go(tg, env, conds + [(d, "eq", v)], seen)
            other_vals = [v for v, tg in t["arms"] if tg != t["otherwise"]]
            if blocks[t["otherwise"]]["term"]["k"] != "unreachable":
                go(t["otherwise"], env, conds + [(d, "notin", other_vals)], seen)
        elif k == "call":
            if t.get("target") is None:
                return  # diverges
            c = callee_of(t)
            args = tuple(opx(a, env) for a in t["args"])
            r = t.get("resolved")
            gargs = r["args"] if isinstance(r, dict) else (t.get("callee_args") or [])
            if not t["dest"]["p"]:
                if c in IDENTITY_CALLS and args:
                    env[t["dest"]["l"]] = args[0]
                else:
                    name = (F.body(c) or {}).get("name") or t.get("callee_name") or c
                    env[t["dest"]["l"]] = ("call", c, name, args, tuple(F.ts(a["t"]) for a in gargs if "t" in a), bi, tuple(a["t"] for a in gargs if "t" in a), tuple(("t", a["t"]) if "t" in a else ("o", None) for a in gargs))
            go(t["target"], env, conds, seen)
        elif k in ("drop", "assert"):
            if t.get("target") is not None:
                go(t["target"], env, conds, seen)
        # unreachable / resume / terminate: no result

    try:
        go(0, {}, [], frozenset())
    except (OverflowError, RecursionError):
        return None
    if not out or any(has_unknown(v) or any(has_unknown(c[0]) for c in cs) for cs, v in out):
        return None
    return out


_INLINE_F = [None]


def fn_value(F, b):
    """Result expression of a function body: one def-use expression, or a path-sensitive `cases` summary."""
    from . import cfg

    r = local_expr(F, cfg.Body(b), 0, 0)
    if has_unknown(r):
        cs = path_cases(F, b)
        if cs:
            return ("cases", tuple((tuple(c), v) for c, v in cs))
    return r


def set_facts(F):
    """Facts used to see through calls of local helper functions during evaluation (`fn tagged_addr(&self) -> usize`)."""
    _INLINE_F[0] = F


def subst_args(e, args):
    if isinstance(e, tuple):
        if len(e) == 2 and e[0] == "arg" and isinstance(e[1], int):
            return args[e[1] - 1] if 1 <= e[1] <= len(args) else ("unknown", "arg")
        return tuple(subst_args(x, args) for x in e)
    return e


def has_unknown(e):
    if isinstance(e, tuple):
        if e and e[0] == "unknown":
            return True
        return any(has_unknown(x) for x in e)
    return False


def inline_call(F, e, depth=0):
    """For a call node of a local function whose result is one straight-line expression of its arguments: that expression with the
    call's arguments substituted; None otherwise."""
    if F is None or e[0] != "call" or depth > 6:
        return None
    b = F.body(e[1])
    if b is None or b["kind"] not in ("Fn", "AssocFn"):
        return None
    from . import cfg

    cache = F.__dict__.setdefault("_symx_ret", {})
    if e[1] not in cache:
        cache[e[1]] = None  # recursion guard
        CB = cfg.Body(b)
        r = local_expr(F, CB, 0, 0)
        if has_unknown(r):
            # the result is assigned on several branches: a path-sensitive summary instead of one expression
            cs = path_cases(F, b)
            r = ("cases", tuple((tuple(c), v) for c, v in cs)) if cs else r
        cache[e[1]] = None if has_unknown(r) else r
    r = cache[e[1]]
    if r is None:
        return None
    # generic parameters: only identity instantiations (or none) are substituted textually
    names = [g["name"] for g in b.get("generics", []) if g["kind"] == "type"]
    gs = list(e[4]) if len(e) > 4 else []
    if names and gs and len(names) == len(gs) and names != gs:
        m = dict(zip(names, gs))

        def ren(x):
            if isinstance(x, tuple):
                return tuple(ren(y) for y in x)
            if isinstance(x, str) and x in m:
                return m[x]
            return x

        r = ren(r)
    return subst_args(r, list(e[3]))


CALL_TRAIT_FNS = ("core::ops::function::FnOnce::call_once", "core::ops::function::FnMut::call_mut", "core::ops::function::Fn::call")


def inline_closure_call(F, e):
    """`call_once(closure{upvars..}, (args..))` with the closure value visible: the closure body's result expression with its
    captures and arguments substituted; None otherwise."""
    if e[0] != "call" or e[1] not in CALL_TRAIT_FNS or len(e[3]) != 2:
        return None
    clo, tup = strip_casts(e[3][0]), e[3][1]
    while clo[0] == "addr":
        clo = clo[1]
    if not (clo[0] == "agg" and clo[1] == "closure" and clo[2] in F.bodies and tup[0] == "agg" and tup[1] == "tuple"):
        return None
    from . import cfg

    cb = F.body(clo[2])
    r = local_expr(F, cfg.Body(cb), 0, 0)
    if has_unknown(r):
        return None
    ups, elems = clo[4], tup[4]

    def sub(x):
        if isinstance(x, tuple):
            if len(x) == 3 and x[0] == "proj" and strip_derefs(x[1]) == ("arg", 1) and x[2]:
                names = [n for n in x[2] if n != "*"]
                if names:
                    try:
                        k = int(names[0])
                    except ValueError:
                        k = None
                    if k is not None and k < len(ups):
                        rest = tuple(names[1:])
                        return ("proj", ups[k], rest) if rest else ups[k]
            if len(x) == 2 and x[0] == "arg" and isinstance(x[1], int) and x[1] >= 2:
                return elems[x[1] - 2] if x[1] - 2 < len(elems) else ("unknown", "arg")
            return tuple(sub(y) for y in x)
        return x

    return sub(r)


def strip_derefs(e):
    while e[0] == "proj" and all(n == "*" for n in e[2]):
        e = e[1]
    while e[0] == "addr":
        e = e[1]
    return e


def normalize_calls(F, e, private, depth=0):
    """Expand calls of private local helpers (predicate `private(key)`) and calls of closures whose value is visible, bottom-up."""
    if depth > 6 or not isinstance(e, tuple):
        return e
    e = tuple(normalize_calls(F, x, private, depth) if isinstance(x, tuple) else x for x in e)
    if e and e[0] == "call":
        r = None
        if e[1] in CALL_TRAIT_FNS:
            r = inline_closure_call(F, e)
        elif F.body(e[1]) is not None and private(e[1]):
            r = inline_call(F, e)
        if r is not None:
            return normalize_calls(F, r, private, depth + 1)
    return e


def strip_casts(e):
    while e[0] == "cast":
        e = e[2]
    return e


def eval_int(e, leaf, bits=64):
    """Evaluate an integer/pointer expression; `leaf(e)` supplies values for calls/args/projections (or None)."""
    mask = (1 << bits) - 1
    k = e[0]
    if k == "const":
        return e[1] & mask
    if k == "cast":
        return eval_int(e[2], leaf, bits)
    if k == "bin":
        a = eval_int(e[2], leaf, bits)
        b = eval_int(e[3], leaf, bits)
        if a is None or b is None:
            return None
        op = e[1].replace("Unchecked", "").replace("WithOverflow", "")
        try:
            r = {
                "BitOr": lambda: a | b, "BitAnd": lambda: a & b, "BitXor": lambda: a ^ b, "Add": lambda: a + b, "Sub": lambda: a - b, "Mul": lambda: a * b,
                "Shl": lambda: a << b, "Shr": lambda: a >> b, "Eq": lambda: int(a == b), "Ne": lambda: int(a != b), "Lt": lambda: int(a < b), "Le": lambda: int(a <= b),
                "Gt": lambda: int(a > b), "Ge": lambda: int(a >= b), "Div": lambda: a // b, "Rem": lambda: a % b,
            }[op]()
        except (KeyError, ZeroDivisionError):
            return None
        return r & mask
    if k == "un":
        a = eval_int(e[2], leaf, bits)
        if a is None:
            return None
        if e[1] == "Not":
            if (len(e) > 3 and e[3] == "bool") or (e[2][0] == "bin" and e[2][1] in ("Eq", "Ne", "Lt", "Le", "Gt", "Ge")):
                return int(not a)
            return (~a) & mask
        if e[1] == "Neg":
            return (-a) & mask
        return None
    if k == "cases":
        for conds, val in e[1]:
            ok = True
            for d, rel, v in conds:
                x = eval_int(d, leaf, bits)
                if x is None:
                    return None
                if (rel == "eq" and x != v) or (rel == "notin" and x in v):
                    ok = False
                    break
            if ok:
                return eval_int(val, leaf, bits)
        return None
    if k == "discr":
        return eval_int(e[1], leaf, bits)
    if k == "agg" and e[1] == "adt" and not e[4] and len(e) > 6 and e[6] is not None:
        return e[6]  # a fieldless enum value is its variant index (as its discriminant reads)
    if k == "agg" and e[1] == "adt" and len(e[4]) == 1:
        return eval_int(e[4][0], leaf, bits)  # a one-field newtype around a word (`TaggedPtr(NonNull<()>)`) is that word
    if k == "tfield":
        return eval_int(e[1], leaf, bits) if e[2] == 0 else None
    if k == "addr":
        return eval_int(e[1], leaf, bits)
    if k == "call":
        v = leaf(e)
        if v is not None:
            return v
        name, args, gs = e[2], e[3], e[4]
        if _INLINE_F[0] is not None and _INLINE_F[0].body(e[1]) is not None:
            # a function of the crate: judged by its body, never by its name (a local `fn addr(&self)` is not `<*const T>::addr`)
            r = inline_call(_INLINE_F[0], e)
            return eval_int(r, leaf, bits) if r is not None else None
        # byte-granular pointer arithmetic (element type of size 1) and integer helpers
        elem1 = bool(gs) and gs[0] in ("u8", "i8", "()", "core::ffi::c_void") or name.startswith("byte_") or name.startswith("wrapping_byte_")
        if name in ("wrapping_add", "add", "byte_add", "wrapping_byte_add", "wrapping_sub", "sub", "byte_sub", "wrapping_byte_sub", "offset", "byte_offset", "wrapping_offset") and len(args) == 2:
            a = eval_int(args[0], leaf, bits)
            b = eval_int(args[1], leaf, bits)
            if a is None or b is None:
                return None
            is_ptr = e[1].startswith("<*")
            if is_ptr and not elem1:
                return None
            return (a - b if "sub" in name else a + b) & mask
        if name in ("addr", "expose_provenance", "with_addr", "cast", "cast_mut", "cast_const", "as_ptr", "new_unchecked") and args:
            if name == "with_addr" and len(args) == 2:
                return eval_int(args[1], leaf, bits)
            return eval_int(args[0], leaf, bits)
        if name == "map_addr" and len(args) == 2:
            # `p.map_addr(|a| a | 1)`: the closure applied to the address
            r = inline_closure_call(_INLINE_F[0], ("call", CALL_TRAIT_FNS[0], "call_once", (args[1], ("agg", "tuple", None, None, (args[0],), (), None)), (), None, (), ())) if _INLINE_F[0] is not None else None
            return eval_int(r, leaf, bits) if r is not None else None
        r = inline_call(_INLINE_F[0], e)
        if r is not None:
            return eval_int(r, leaf, bits)
        return None
    return leaf(e)


def show(e, depth=0):
    if depth > 14:
        return "..."
    k = e[0]
    if k == "const":
        return hex(e[1]) if e[1] > 9 else str(e[1])
    if k == "arg":
        return "arg%d" % e[1]
    if k == "cast":
        return "(%s as %s)" % (show(e[2], depth + 1), e[3].split("::")[-1] if len(e[3]) < 30 else "_")
    if k == "bin":
        sym = {"BitOr": "|", "BitAnd": "&", "Eq": "==", "Ne": "!=", "Add": "+", "Sub": "-", "Gt": ">", "Ge": ">=", "Lt": "<", "Le": "<="}.get(e[1], e[1])
        return "(%s %s %s)" % (show(e[2], depth + 1), sym, show(e[3], depth + 1))
    if k == "un":
        return "%s(%s)" % ({"Not": "!", "Neg": "-"}.get(e[1], e[1]), show(e[2], depth + 1))
    if k == "call":
        import re

        short = lambda x: re.sub(r"\b(?:[a-z_0-9]+::)+", "", x)
        return "%s%s(%s)" % (e[2], "::<%s>" % ", ".join(short(x) for x in e[4]) if e[4] else "", ", ".join(show(a, depth + 1) for a in e[3]))
    if k == "proj":
        return "%s.%s" % (show(e[1], depth + 1), ".".join(e[2]))
    if k == "addr":
        return show(e[1], depth)  # references are transparent here
    if k == "tfield":
        return "%s.%d" % (show(e[1], depth + 1), e[2])
    if k == "induction":
        return "loop_ptr(%s, +%d)" % (show(e[1], depth + 1), e[2])
    if k == "agg":
        return "%s(%s)" % (e[3] or e[1], ", ".join(show(a, depth + 1) for a in e[4]))
    return str(e[:2])
