"""Typed view over a fact base produced by the driver (one per feature configuration)."""
import json
import re
from functools import lru_cache

from . import extract

# Public API names the properties themselves enumerate: the only names hard-wired.
OWNING_HANDLES = ("Arc", "ThinArc", "OffsetArc", "ArcUnion")
WRAPPER_HANDLES = ("UniqueArc",)
BORROW_HANDLES = ("ArcBorrow", "ArcUnionBorrow")
ALL_HANDLES = OWNING_HANDLES + WRAPPER_HANDLES + BORROW_HANDLES

MANUALLY_DROP = "core::mem::manually_drop::ManuallyDrop"
MAYBE_UNINIT = "core::mem::maybe_uninit::MaybeUninit"
PHANTOM = "core::marker::PhantomData"
NONNULL = "core::ptr::non_null::NonNull"
BOX = "alloc::boxed::Box"
OPTION = "core::option::Option"
RESULT = "core::result::Result"


class Facts:
    def __init__(self, raw):
        self.raw = raw
        self.config = raw.get("_config", "?")
        self.types = raw["types"]
        self.bodies = {b["key"]: b for b in raw["bodies"]}
        self.body_list = raw["bodies"]
        self.adts = {a["path"]: a for a in raw["adts"]}
        self.adt_by_name = {}
        for a in raw["adts"]:
            self.adt_by_name.setdefault(a["name"], []).append(a)
        self.impls = raw["impls"]
        self.consts = {c["path"]: c for c in raw["consts"]}
        self.pointer_bits = raw["pointer_bits"]
        self._roles()

    # ------------------------------------------------------------------ roles
    def _roles(self):
        """Role inference: handle ADTs by public name; INNER/COUNT/DATA by structure."""
        self.handle_paths = {}
        for n in ALL_HANDLES:
            cands = [a for a in self.adt_by_name.get(n, []) if a["reachable"]]
            if len(cands) == 1:
                self.handle_paths[n] = cands[0]["path"]
        self.path_to_handle = {p: n for n, p in self.handle_paths.items()}
        # INNER: the ADT that Arc's NonNull field points to
        self.inner_path = None
        self.count_field = None
        self.data_field = None
        arc = self.adts.get(self.handle_paths.get("Arc", ""))
        if arc:
            for f in arc["variants"][0]["fields"]:
                t = self.types[f["ty"]]
                if t["k"] == "adt" and t["path"] == NONNULL:
                    inner = self.types[t["args"][0]["t"]]
                    if inner["k"] == "adt" and inner["local"]:
                        self.inner_path = inner["path"]
        inner = self.adts.get(self.inner_path or "")
        if inner:
            for i, f in enumerate(inner["variants"][0]["fields"]):
                t = self.types[f["ty"]]
                if t["k"] == "adt" and t["path"].startswith("core::sync::atomic::Atomic"):
                    self.count_field = (i, f["name"])
                else:
                    self.data_field = (i, f["name"])
        # local ADTs with a Drop impl
        self.drop_impls = {}
        for im in self.impls:
            if im.get("trait") == "core::ops::drop::Drop":
                t = self.types[im["self_ty"]]
                if t["k"] == "adt":
                    for it in im["items"]:
                        if it["name"] == "drop":
                            self.drop_impls[t["path"]] = it["key"]

    # ------------------------------------------------------------------ types
    def ty(self, i):
        return self.types[i]

    def ts(self, i):
        return self.types[i]["s"]

    def is_adt(self, i, path):
        t = self.types[i]
        return t["k"] == "adt" and t["path"] == path

    def handle_name(self, i):
        """Public handle name if type i is (exactly) a handle ADT."""
        t = self.types[i]
        if t["k"] == "adt":
            return self.path_to_handle.get(t["path"])
        return None

    def strip_refs(self, i):
        t = self.types[i]
        while t["k"] in ("ref", "ptr"):
            i = t["t"]
            t = self.types[i]
        return i

    def walk(self, i, seen=None):
        """All type indices syntactically mentioned by type i (including itself)."""
        if seen is None:
            seen = set()
        if i in seen:
            return seen
        seen.add(i)
        t = self.types[i]
        k = t["k"]
        if k in ("ref", "ptr", "slice", "array"):
            self.walk(t["t"], seen)
        elif k == "tuple":
            for x in t["ts"]:
                self.walk(x, seen)
        elif k in ("adt", "closure", "fndef"):
            for a in t.get("args", []):
                if "t" in a:
                    self.walk(a["t"], seen)
            for u in t.get("upvars", []):
                self.walk(u, seen)
        elif k == "alias":
            for x in t.get("params", []):
                self.walk(x, seen)
        return seen

    def mentions_param(self, i):
        return any(self.types[x]["k"] in ("param", "alias", "dyn") for x in self.walk(i))

    def mentions_adt(self, i, path):
        return any(self.types[x]["k"] == "adt" and self.types[x]["path"] == path for x in self.walk(i))

    def mentions_closure(self, i):
        return any(self.types[x]["k"] in ("closure", "fndef", "fnptr") for x in self.walk(i))

    def adt_arg_types(self, i):
        t = self.types[i]
        return [a["t"] for a in t.get("args", []) if "t" in a]

    # ---- ownership tokens -------------------------------------------------
    def tokens(self, i, env=None, depth=0):
        """Number of owning-handle tokens a value of type i holds by value (outside ManuallyDrop).

        Returns (n, ambiguous). `env` maps a type-parameter name to (type index, env) when
        instantiating the declared field types of a local struct.
        """
        if depth > 12:
            return (0, True)
        t = self.types[i]
        k = t["k"]
        if k == "param":
            if env and t["name"] in env:
                ti, e2 = env[t["name"]]
                return self.tokens(ti, e2, depth + 1)
            dyn = getattr(self, "_dyn_env", None)
            if dyn and t["name"] in dyn and env is None:
                # a generic helper being summarised for a call site that passes a handle for this parameter
                ti, e2 = dyn[t["name"]]
                return self.tokens(ti, e2 or {}, depth + 1)
            return (0, False)
        if k in ("prim", "str", "never", "ref", "ptr", "fnptr", "fndef", "dyn", "alias", "other"):
            return (0, False)
        if k == "slice":
            n, amb = self.tokens(t["t"], env, depth + 1)
            return (0, amb or n > 0)
        if k == "array":
            n, amb = self.tokens(t["t"], env, depth + 1)
            if n == 0:
                return (0, amb)
            try:
                return (n * int(str(t["len"]).split("_")[0]), amb)
            except ValueError:
                return (n, True)
        if k == "tuple":
            tot, amb = 0, False
            for x in t["ts"]:
                n, a = self.tokens(x, env, depth + 1)
                tot += n
                amb |= a
            return (tot, amb)
        if k == "closure":
            tot, amb = 0, False
            for x in t.get("upvars", []):
                n, a = self.tokens(x, env, depth + 1)
                tot += n
                amb |= a
            return (tot, amb)
        if k == "adt":
            p = t["path"]
            name = self.path_to_handle.get(p)
            if name in OWNING_HANDLES:
                return (1, False)
            if name in BORROW_HANDLES:
                return (0, False)
            if p in (MANUALLY_DROP, MAYBE_UNINIT, PHANTOM, NONNULL) or p.startswith("core::sync::atomic::") or p.startswith("core::cell::"):
                return (0, False)
            targs = [(a["t"], env) for a in t["args"] if "t" in a]
            if p == BOX:
                return self.tokens(targs[0][0], env, depth + 1)
            if p in (OPTION, RESULT):
                vals = [self.tokens(x, env, depth + 1) for x, _ in targs]
                ns = set(v[0] for v in vals)
                if p == OPTION:
                    ns.add(0)
                amb = any(v[1] for v in vals) or len(ns) > 1
                return (max(ns), amb)
            if t["local"] and p in self.adts:
                adt = self.adts[p]
                names = [g["name"] for g in adt["generics"] if g["kind"] == "type"]
                e2 = {}
                for n_, (ti, e) in zip(names, targs):
                    e2[n_] = (ti, e)
                per_variant = []
                amb = False
                for v in adt["variants"]:
                    tot = 0
                    for f in v["fields"]:
                        n, a = self.tokens(f["ty"], e2, depth + 1)
                        tot += n
                        amb |= a
                    per_variant.append(tot)
                if len(set(per_variant)) > 1:
                    amb = True
                return (max(per_variant) if per_variant else 0, amb)
            # other std containers (Vec, String, Layout, ...): only a problem if they hold handles
            tot = 0
            for x, _ in targs:
                n, a = self.tokens(x, env, depth + 1)
                tot += n
            return (0, tot > 0)
        return (0, False)

    # ------------------------------------------------------------------ bodies
    def body(self, key):
        return self.bodies.get(key)

    def find_bodies(self, pattern):
        rx = re.compile(pattern)
        return [b for b in self.body_list if rx.search(b["key"])]

    def method(self, handle, name, trait=None, self_rx=None):
        """Bodies that are method `name` on an impl whose self type is the ADT of public name `handle`."""
        out = []
        hp = self.handle_paths.get(handle) if handle in ALL_HANDLES else None
        for b in self.body_list:
            if b.get("name") != name or "impl" not in b:
                continue
            st = self.types[b["impl"]["self_ty"]]
            if hp is not None:
                if not (st["k"] == "adt" and st["path"] == hp):
                    continue
            elif handle is not None:
                if not (st["k"] == "adt" and st["path"].split("::")[-1] == handle):
                    continue
            if trait is not None and (b["impl"].get("trait") or "").split("::")[-1] != trait:
                continue
            if trait is None and b["impl"].get("trait"):
                continue
            if self_rx and not re.search(self_rx, st["s"]):
                continue
            out.append(b)
        return out

    def loc(self, body, span=None):
        sp = span or body["span"]
        return "%s:%s" % (sp["file"], sp["line"])


def load(config, da=False):
    return Facts(extract.facts(config, da))


def place_str(p):
    s = "_%d" % p["l"]
    for e in p["p"]:
        if e == "deref":
            s = "(*%s)" % s
        elif isinstance(e, dict) and "f" in e:
            s = "%s.%s" % (s, e.get("name", e["f"]))
        elif isinstance(e, dict) and "dc" in e:
            s = "(%s as %s)" % (s, e.get("name"))
        else:
            s = "%s[..]" % s
    return s


def operand_place(op):
    if "cp" in op:
        return op["cp"]
    if "mv" in op:
        return op["mv"]
    return None


def operand_local(op):
    """Local index if the operand is a bare local (no projection)."""
    p = operand_place(op)
    if p is not None and not p["p"]:
        return p["l"]
    return None


def operand_const(op):
    return op.get("c")
