use std::cell::RefCell;
use std::panic::{catch_unwind, AssertUnwindSafe};
use triomphe::{Arc, OffsetArc};

thread_local! { static OTHER: RefCell<Option<Arc<P>>> = RefCell::new(None); }

struct P { id: u32, bomb: bool }
impl Clone for P {
    fn clone(&self) -> P {
        // releases the other owner while make_mut is between its uniqueness test and the redirect
        OTHER.with(|o| o.borrow_mut().take());
        P { id: self.id + 100, bomb: false }
    }
}
impl Drop for P {
    fn drop(&mut self) { if self.bomb && !std::thread::panicking() { panic!("destructor of the old value panics"); } }
}

#[test]
fn offset_make_mut_old_destructor_panics() {
    let a = Arc::new(P { id: 1, bomb: true });
    OTHER.with(|o| *o.borrow_mut() = Some(a.clone()));
    let mut off: OffsetArc<P> = Arc::into_raw_offset(a);
    let r = catch_unwind(AssertUnwindSafe(|| { off.make_mut().id = 7; }));
    assert!(r.is_err());
    // `off` survived the call: it must still be a valid handle
    let n = OffsetArc::strong_count(&off);
    println!("count after = {n}, id = {}", off.id);
    drop(off);
}
